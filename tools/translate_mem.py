#!/usr/bin/env python3
"""translate_mem.py — the `mem` step of tools/translate.py: the MEMORY half of the translator ties (property C07).

The kernel model (coq/Model/Kernels.v, and its translation Gen/GenKernels.v) performs all memory traffic through
`load s i (lanes R)`, `store i reg`, `load_dense R s i`, `write_dense R i d` of Model/SimdApi.v / Base/Mem.v.  This step
re-reads, on every run, what `R::load(ptr)` / `R::write(ptr, reg)` / `R::load_dense` / `R::write_dense` REALLY are in
the source and regenerates coq/Gen/GenSimdApi.v:

 (a) the trait DEFAULT methods `load_dense`, `write_dense`, `elements_per_dense`, `elements_per_lane`, `filled_dense`,
     `zeroed_dense` of cfavml/src/danger/core_simd_api.rs (and `DenseLane::copy`, `DenseLane::NUM_LANES`, the field
     list of `struct DenseLane`), rendered statement by statement over the vocabulary of SimdApi.v / Mem.v:
         gen_load_dense, gen_write_dense, gen_elements_per_dense, gen_elements_per_lane, gen_filled_dense,
         gen_zeroed_dense, gen_dense_copy, gen_NUM_LANES, gen_dense_fields;
 (b) `gen_dense_mem_overrides`: every (register, type, method) for which an impl_*.rs overrides one of those six;
 (c) `gen_mem_table : list mem_entry` (Model/MemIntrinsics.v): for every `impl SimdRegister<..> for ..` of
     impl_{fallback,avx2,avx2_fma,avx512,neon}.rs its `load` and its `write`, recognised as ONE load / store intrinsic
     (or `ptr::read` / `ptr::write`) on the `mem` parameter itself — possibly through a pointer cast, possibly by
     delegation to another impl's `load` / `write` — together with the impl's `type Register`.  What an intrinsic
     touches is NOT decided here: it is looked up in the hand-written table Model/MemIntrinsics.v by the theorems of
     Proofs/GenMemProofs.v (Props/C07Mem.v).

The mapping (TRUSTED; DESIGN has the table):
   parameter `mem: *const T`            binders `(s_mem : slice) (i_mem : nat)`: element i_mem of slice s_mem
   parameter `mem: *mut T`              binder `(i_mem : nat)`: element i_mem of the result slice
   `p.add(e)`                           index `(i + e')`                 (any other pointer method / cast: rejected)
   `Self::elements_per_lane()`          `(lanes R)`
   `Self::load(p)`                      `load s idx (lanes R)`           (an effect of the monad of Base/Mem.v)
   `Self::write(p, r)`                  `store idx r'`
   `Self::filled(v)` / `Self::zeroed()` `(r_filled R v')` / `(r_zeroed R)`
   `lane.x`                             `(nth_reg lane k)`, k = position of field x in `struct DenseLane`
   `DenseLane { x: e, .. }`             effects bound IN WRITTEN ORDER (`x <- e' ;;`), value = the list of the fields in
                                        DECLARED order (`[a; b; ..]`); every declared field exactly once
   `DenseLane::copy(e)`                 `(gen_dense_copy e')` (itself translated from `impl DenseLane`)
   `DenseLane::<..>::NUM_LANES`         `gen_NUM_LANES` (the literal of the source)
   `mem::size_of::<Self::Register>()`   `size_of_Register`, `mem::size_of::<T>()` -> `size_of_T` (binders of
                                        gen_elements_per_lane; instantiated per back end by the table theorems)
   usize literals, `+ * /`, `let x = e;` nat arithmetic, `let x := e' in`
   `e;` (unit effect)                   `_ <- e' ;;` (the last one: `e'`)
Anything else is a TranslateError (never a guess): the definition is not emitted and its lemma stops compiling.
"""
import glob
import json
import os
import re
import sys

sys.path.insert(0, os.path.dirname(os.path.abspath(__file__)))
from rustlex import TranslateError, match_close, texts, split_top  # noqa: E402
import translate_feat as tf  # noqa: E402

VERIF = os.path.dirname(os.path.dirname(os.path.abspath(__file__)))
MEMINTR_V = os.path.join(VERIF, "coq", "Model", "MemIntrinsics.v")
REGS = ["Fallback", "Avx2", "Avx2Fma", "Avx512", "Neon"]
TYS = tf.TYS
DEFAULTS_WANTED = ["elements_per_dense", "elements_per_lane", "load_dense", "filled_dense", "zeroed_dense", "write_dense"]
RESERVED = {"R", "T", "A", "M", "load", "store", "lanes", "ret", "bind", "fun", "let", "in", "if", "then", "else", "match",
            "with", "end", "as", "at", "by", "do", "for", "forall", "exists", "fix", "cofix", "return", "using", "where",
            "Type", "Set", "Prop", "nat", "list", "slice", "dense", "vreg", "nth_reg", "r_filled", "r_zeroed", "tt", "unit",
            "gen_dense_copy", "gen_NUM_LANES", "size_of_Register", "size_of_T", "SA", "SB", "SR", "S", "O"}


def cstr(s):
    return '"' + s.replace('"', '""') + '"'


# ----------------------------------------------------------------------------------------------
# (a) the trait's default methods
# ----------------------------------------------------------------------------------------------

class V:
    """A rendered expression.  kind: usize | ptr_const | ptr_mut | reg | dense | elem | unit;
    effect: the text is a computation `M T <kind>` rather than a value."""
    __slots__ = ("kind", "coq", "effect", "slice")

    def __init__(self, kind, coq, effect=False, slice_=None):
        self.kind, self.coq, self.effect, self.slice = kind, coq, effect, slice_


class FnCtx:
    """What `Self`, the type parameter and the fields stand for while one fn is rendered."""

    def __init__(self, mode, where, fields, tparam=None, sizes=False):
        self.mode, self.where, self.fields, self.tparam, self.sizes = mode, where, fields, tparam, sizes


class DParser:
    def __init__(self, toks, scope, ctx, used):
        self.toks, self.scope, self.ctx, self.used = toks, dict(scope), ctx, used
        self.i = 0
        self.lines = []       # rendered statements so far (`x <- c ;;` / `let x := e in`)
        self.any_effect = False

    # -- token helpers --
    def peek(self, k=0):
        return self.toks[self.i + k].text if self.i + k < len(self.toks) else None

    def line(self):
        return self.toks[min(self.i, len(self.toks) - 1)].line if self.toks else 0

    def err(self, msg):
        raise TranslateError("%s: line %d: %s (at `%s`)" % (self.ctx.where, self.line(), msg,
                                                              " ".join(texts(self.toks[self.i:self.i + 8]))))

    def eat(self, x):
        if self.peek() != x:
            self.err("expected `%s`" % x)
        self.i += 1

    def fresh(self, name):
        n = name
        while n in RESERVED or n in self.used:
            n += "_"
        self.used.add(n)
        return n

    def sub(self, toks):
        p = DParser(toks, self.scope, self.ctx, self.used)
        p.lines = self.lines          # shared: effects found in a sub-expression are bound in the enclosing block
        return p

    # -- statements --
    def body(self):
        """-> the final V (value or effect) of the fn body; self.lines holds what precedes it."""
        last_effect_stmt = None
        while True:
            if self.peek() is None:
                # no tail expression: a unit fn; the last effect statement is the tail
                if last_effect_stmt is not None and self.lines and self.lines[-1] is last_effect_stmt[0]:
                    self.lines.pop()
                    return V("unit", last_effect_stmt[1], True)
                return V("unit", "tt")
            if self.peek() == "let":
                self.i += 1
                if self.peek() == "mut":
                    self.err("`let mut` (assignment) is outside the supported fragment")
                t = self.toks[self.i]
                if t.kind != "ident":
                    self.err("`let` pattern is not a plain identifier")
                self.i += 1
                if self.peek() == ":":
                    self.err("type-annotated `let` is outside the supported fragment")
                self.eat("=")
                v = self.expr()
                self.eat(";")
                name = self.fresh(t.text)
                if v.effect:
                    self.any_effect = True
                    self.lines.append("%s <- %s ;;" % (name, v.coq))
                else:
                    self.lines.append("let %s := %s in" % (name, v.coq))
                self.scope[t.text] = V(v.kind, name, False, v.slice)
                last_effect_stmt = None
                continue
            start = self.i
            v = self.expr()
            if self.peek() == ";":
                self.i += 1
                if not v.effect:
                    self.i = start
                    self.err("expression statement without effect")
                if v.kind != "unit":
                    self.i = start
                    self.err("the value of an effect is discarded")
                self.any_effect = True
                ln = "_ <- %s ;;" % v.coq
                self.lines.append(ln)
                last_effect_stmt = (ln, v.coq)
                continue
            if self.peek() is not None:
                self.err("trailing tokens after the final expression")
            if v.effect:
                self.any_effect = True
            return v

    # -- expressions --
    def expr(self):
        lhs = self.term()
        while self.peek() in ("+",):
            self.i += 1
            rhs = self.term()
            lhs = self.arith("+", lhs, rhs)
        if self.peek() in ("-", "%", "<<", ">>", "&", "|", "^", "as", "==", "<", ">", "&&", "||", "?"):
            self.err("operator `%s` is outside the supported fragment" % self.peek())
        return lhs

    def term(self):
        lhs = self.postfix()
        while self.peek() in ("*", "/"):
            op = self.peek()
            self.i += 1
            rhs = self.postfix()
            lhs = self.arith(op, lhs, rhs)
        return lhs

    def arith(self, op, a, b):
        for v in (a, b):
            if v.kind != "usize" or v.effect:
                self.err("operator `%s` on a value that is not a plain usize" % op)
        return V("usize", "(%s %s %s)" % (a.coq, op, b.coq))

    def postfix(self):
        v = self.atom()
        while self.peek() == ".":
            t = self.toks[self.i + 1] if self.i + 1 < len(self.toks) else None
            if t is None or t.kind != "ident":
                self.err("field / method access not understood")
            if self.peek(2) == "(":
                if v.kind not in ("ptr_const", "ptr_mut") or v.effect:
                    self.err("method `.%s(..)` on a value that is not a pointer" % t.text)
                if t.text != "add":
                    self.err("pointer method `.%s` is outside the supported fragment (only `.add`)" % t.text)
                self.i += 2
                args = self.args()
                if len(args) != 1 or args[0].kind != "usize" or args[0].effect:
                    self.err("`.add` takes one usize")
                v = V(v.kind, "(%s + %s)" % (v.coq, args[0].coq), False, v.slice)
                continue
            if v.kind != "dense" or v.effect:
                self.err("field access on a value that is not a DenseLane")
            if t.text not in self.ctx.fields:
                self.err("`%s` is not a field of struct DenseLane" % t.text)
            v = V("reg", "(nth_reg %s %d)" % (v.coq, self.ctx.fields.index(t.text)))
            self.i += 2
        return v

    def args(self):
        if self.peek() != "(":
            self.err("argument list expected")
        e = match_close(self.toks, self.i)
        out = []
        for part in split_top(self.toks[self.i + 1:e]):
            p = self.sub(part)
            v = p.expr()
            if p.i != len(part):
                p.err("argument not understood")
            if v.effect:
                p.i = 0
                p.err("an effect (load / write) nested inside an argument is outside the supported fragment")
            out.append(v)
        self.i = e + 1
        return out

    def generic_args(self):
        """`<..>` at the cursor -> its token list."""
        depth, j = 0, self.i
        while j < len(self.toks):
            x = self.toks[j].text
            if x == "<":
                depth += 1
            elif x == ">":
                depth -= 1
                if depth == 0:
                    break
            j += 1
        if j >= len(self.toks):
            self.err("unbalanced generic arguments")
        inner = self.toks[self.i + 1:j]
        self.i = j + 1
        return inner

    def atom(self):
        t = self.toks[self.i] if self.i < len(self.toks) else None
        if t is None:
            self.err("expression expected")
        x = t.text
        if x == "(":
            e = match_close(self.toks, self.i)
            p = self.sub(self.toks[self.i + 1:e])
            v = p.expr()
            if p.i != e - self.i - 1:
                p.err("parenthesised expression not understood")
            self.i = e + 1
            return v
        if t.kind == "num":
            m = re.match(r"^([0-9][0-9_]*)(usize)?$", x)
            if not m:
                self.err("literal `%s` is outside the supported fragment (decimal usize)" % x)
            self.i += 1
            return V("usize", str(int(m.group(1).replace("_", ""))))
        if t.kind != "ident":
            self.err("expression not understood")
        path, gens = [x], []
        self.i += 1
        while self.peek() == "::":
            self.i += 1
            if self.peek() == "<":
                gens.append(self.generic_args())
                continue
            t2 = self.toks[self.i] if self.i < len(self.toks) else None
            if t2 is None or t2.kind != "ident":
                self.err("path segment expected")
            path.append(t2.text)
            self.i += 1
        return self.path_expr(path, gens)

    def path_expr(self, path, gens):
        ctx = self.ctx
        nxt = self.peek()
        if len(path) == 1 and not gens and nxt not in ("(", "{", "!"):
            if path[0] in self.scope:
                return self.scope[path[0]]
            self.err("unknown identifier `%s`" % path[0])
        if nxt == "!":
            self.err("macro `%s!` is outside the supported fragment" % path[-1])
        # struct literal
        if nxt == "{" and (path == ["DenseLane"] or (path == ["Self"] and ctx.mode == "dense")) and not gens:
            return self.struct_literal()
        # DenseLane items
        if (path[0] == "DenseLane" or (path[0] == "Self" and ctx.mode == "dense")) and len(path) == 2:
            if path[1] == "NUM_LANES" and nxt != "(":
                return V("usize", "gen_NUM_LANES")
            if path[1] == "copy" and nxt == "(":
                a = self.args()
                if len(a) != 1 or a[0].kind not in ("reg", "elem"):
                    self.err("DenseLane::copy takes one register")
                return V("dense", "(gen_dense_copy %s)" % a[0].coq)
            self.err("unknown item DenseLane::%s" % path[1])
        # mem::size_of::<X>()
        if path in (["mem", "size_of"], ["core", "mem", "size_of"], ["std", "mem", "size_of"], ["size_of"]) and nxt == "(":
            if not ctx.sizes:
                self.err("size_of outside `elements_per_lane`")
            if len(gens) != 1:
                self.err("size_of without a type argument")
            ty = "".join(texts(gens[0]))
            self.eat("(")
            self.eat(")")
            if ty == "Self::Register":
                return V("usize", "size_of_Register")
            if ty == "T":
                return V("usize", "size_of_T")
            self.err("size_of::<%s>: only Self::Register and T are understood" % ty)
        # Self::method(..)
        if ctx.mode == "trait" and len(path) == 2 and path[0] == "Self" and nxt == "(" and not gens:
            m = path[1]
            a = self.args()
            if m == "elements_per_lane" and not a:
                return V("usize", "(lanes R)")
            if m == "load":
                if len(a) != 1 or a[0].kind != "ptr_const":
                    self.err("Self::load takes one `*const T`")
                return V("reg", "load %s %s (lanes R)" % (a[0].slice, a[0].coq), True)
            if m == "write":
                if len(a) != 2 or a[0].kind != "ptr_mut" or a[1].kind != "reg":
                    self.err("Self::write takes a `*mut T` and a register")
                return V("unit", "store %s %s" % (a[0].coq, a[1].coq), True)
            if m == "filled":
                if len(a) != 1 or a[0].kind != "elem":
                    self.err("Self::filled takes one T")
                return V("reg", "(r_filled R %s)" % a[0].coq)
            if m == "zeroed" and not a:
                return V("reg", "(r_zeroed R)")
            self.err("`Self::%s` with %d arguments is outside the supported fragment" % (m, len(a)))
        self.err("path `%s` not understood" % "::".join(path))

    def struct_literal(self):
        e = match_close(self.toks, self.i)
        vals, order = {}, []
        for part in split_top(self.toks[self.i + 1:e]):
            if len(part) < 3 or part[0].kind != "ident" or part[1].text != ":":
                self.err("struct literal field not understood (shorthand / `..base` are outside the fragment)")
            f = part[0].text
            if f not in self.ctx.fields:
                self.err("`%s` is not a field of struct DenseLane" % f)
            if f in vals:
                self.err("field `%s` given twice" % f)
            p = DParser(part[2:], self.scope, self.ctx, self.used)
            p.lines = self.lines
            v = p.expr()
            if p.i != len(part) - 2:
                p.err("struct literal field value not understood")
            if v.kind not in ("reg", "elem"):
                p.i = 0
                p.err("field value is not a register")
            if v.effect:
                name = self.fresh(f)
                self.lines.append("%s <- %s ;;" % (name, v.coq))       # evaluated in WRITTEN order
                self.any_effect = True
                v = V(v.kind, name)
            vals[f] = v
            order.append(f)
        missing = [f for f in self.ctx.fields if f not in vals]
        if missing:
            self.err("struct literal without field(s) %s" % ", ".join(missing))
        self.i = e + 1
        return V("dense", "[%s]" % "; ".join(vals[f].coq for f in self.ctx.fields))       # DECLARED order


def fn_signature(it, where):
    """([(name, type text)], return type text | None) of a fn item."""
    head = it["head"]
    s = texts(head)
    k = s.index("fn")
    j = k + 2
    if s[j] != "(":
        raise TranslateError("%s: fn signature not understood (generic method?)" % where)
    e = match_close(head, j)
    params = []
    for part in split_top(head[j + 1:e]):
        ps = texts(part)
        if len(ps) < 3 or ps[1] != ":":
            raise TranslateError("%s: parameter not understood: %s" % (where, " ".join(ps)))
        params.append((ps[0], "".join(ps[2:])))
    ret = None
    if e + 1 < len(head):
        if s[e + 1] != "->":
            raise TranslateError("%s: unexpected tokens after the parameter list: %s" % (where, " ".join(s[e + 1:])))
        ret = "".join(s[e + 2:])
    return params, ret


def render_default(name, it, fields, where):
    """One trait default method -> Gallina text (inside `Section GenSimdApi` over R : SimdOps T), or, for
    elements_per_lane, a closed definition over the two sizes."""
    params, ret = fn_signature(it, where)
    sizes = name == "elements_per_lane"
    ctx = FnCtx("trait", where, fields, sizes=sizes)
    used, scope, binders = set(), {}, []
    for n, t in params:
        if t == "*constT":
            s_, i_ = "s_" + n, "i_" + n
            used.update((s_, i_))
            binders.append("(%s : slice) (%s : nat)" % (s_, i_))
            scope[n] = V("ptr_const", i_, False, s_)
        elif t == "*mutT":
            i_ = "i_" + n
            used.add(i_)
            binders.append("(%s : nat)" % i_)
            scope[n] = V("ptr_mut", i_)
        elif t == "T":
            nm = n if n not in RESERVED else n + "_"
            used.add(nm)
            binders.append("(%s : T)" % nm)
            scope[n] = V("elem", nm)
        elif t == "Self::Register":
            nm = n if n not in RESERVED else n + "_"
            used.add(nm)
            binders.append("(%s : vreg T)" % nm)
            scope[n] = V("reg", nm)
        elif t == "DenseLane<Self::Register>":
            nm = n if n not in RESERVED else n + "_"
            used.add(nm)
            binders.append("(%s : dense T)" % nm)
            scope[n] = V("dense", nm)
        else:
            raise TranslateError("%s: parameter `%s: %s` has no counterpart in the model" % (where, n, t))
    p = DParser(it["body"], scope, ctx, used)
    v = p.body()
    kinds = {"usize": ("usize", "nat"), "DenseLane<Self::Register>": ("dense", "dense T"), "Self::Register": ("reg", "vreg T"),
             None: ("unit", "unit")}
    if ret not in kinds:
        raise TranslateError("%s: return type `%s` has no counterpart in the model" % (where, ret))
    kind, cty = kinds[ret]
    if v.kind != kind:
        raise TranslateError("%s: the body's value is a %s, the return type says %s" % (where, v.kind, kind))
    effect = p.any_effect or v.effect
    if effect:
        tail = v.coq if v.effect else "ret %s" % v.coq
        cty = "M T (%s)" % cty if " " in cty else "M T %s" % cty
    else:
        tail = v.coq
    body = "\n    ".join(p.lines + [tail])
    if sizes:
        if params or effect:
            raise TranslateError("%s: elements_per_lane with parameters / effects" % where)
        return ("(* %s, line %d: the sizes are those of the impl's `type Register` and of its element type *)\n"
                "Definition gen_%s (size_of_Register size_of_T : nat) : %s :=\n    %s.\n" % (where, it["line"], name, cty, body))
    return "  (* %s, line %d *)\n  Definition gen_%s %s: %s :=\n    %s.\n" % (
        where, it["line"], name, "".join(b + " " for b in binders), cty, body)


def parse_dense(REPO):
    """struct DenseLane's fields in DECLARED order, NUM_LANES, and the fn items of `impl DenseLane`."""
    rel = tf.API_FILE
    toks = tf.tokenize(tf.read(REPO, rel))
    fields = None
    for it in tf.top_items(toks, rel):
        kind, k = tf.item_kind(it["head"])
        if kind == "struct" and it["head"][k + 1].text == "DenseLane":
            if it["body"] is None:
                raise TranslateError("%s: struct DenseLane without named fields" % rel)
            h = texts(it["head"][k + 2:])
            if h[:1] != ["<"] or len(h) != 3 or h[2] != ">":
                raise TranslateError("%s: struct DenseLane: one type parameter expected, got `%s`" % (rel, " ".join(h)))
            tparam = h[1]
            fields = []
            for part in split_top(it["body"]):
                j = 0
                while j < len(part) and part[j].text == "#":        # field attributes / doc attributes
                    j = match_close(part, j + 1) + 1
                s = [x for x in texts(part[j:]) if x != "pub"]
                if len(s) != 3 or s[1] != ":" or s[2] != tparam:
                    raise TranslateError("%s: DenseLane field not understood: %s" % (rel, " ".join(s)))
                if s[0] in fields:
                    raise TranslateError("%s: DenseLane field `%s` declared twice" % (rel, s[0]))
                fields.append(s[0])
    if fields is None:
        raise TranslateError("%s: struct DenseLane not found" % rel)
    return fields


def render_dense_items(dense_items, fields):
    """`impl<T: Copy> DenseLane<T> { const NUM_LANES; fn copy }` -> (gen_NUM_LANES text, gen_dense_copy text)."""
    rel = tf.API_FILE
    num, copy = None, None
    for d in dense_items:
        k = tf.item_kind(d["head"])[1]
        generics = []
        if d["head"][k + 1].text == "<":
            generics, _ = tf.strip_generics(d["head"], k + 1)
        for m in tf.top_items(d["body"], rel):
            mk, mi = tf.item_kind(m["head"])
            if mk == "const":
                s = texts(m["head"])
                q = s.index("const")
                if s[q + 1] == "NUM_LANES":
                    if s[q + 2:q + 5] != [":", "usize", "="] or len(s) != q + 6 or not re.match(r"^[0-9][0-9_]*(usize)?$", s[q + 5]):
                        raise TranslateError("%s: `const NUM_LANES` is not a plain usize literal: %s" % (rel, " ".join(s)))
                    if num is not None:
                        raise TranslateError("%s: NUM_LANES defined twice" % rel)
                    num = (int(s[q + 5].replace("usize", "").replace("_", "")), m["line"])
            elif mk == "fn" and tf.fn_name(m["head"], mi) == "copy":
                where = "%s: DenseLane::copy" % rel
                params, ret = fn_signature(m, where)
                if len(generics) != 1 or len(params) != 1 or params[0][1] != generics[0] or ret != "Self":
                    raise TranslateError("%s: signature is not `fn copy(value: %s) -> Self`" % (where, generics[0] if generics else "T"))
                pn = params[0][0] if params[0][0] not in RESERVED else params[0][0] + "_"
                ctx = FnCtx("dense", where, fields)
                p = DParser(m["body"], {params[0][0]: V("elem", pn)}, ctx, {pn})
                v = p.body()
                if v.kind != "dense" or v.effect or p.lines:
                    raise TranslateError("%s: body is not a plain struct literal" % where)
                copy = ("(* %s, line %d *)\nDefinition gen_dense_copy {A : Type} (%s : A) : list A :=\n  %s.\n"
                        % (where, m["line"], pn, v.coq))
    if num is None:
        raise TranslateError("%s: DenseLane::NUM_LANES not found" % rel)
    if copy is None:
        raise TranslateError("%s: DenseLane::copy not found" % rel)
    return ("(* %s: `pub const NUM_LANES: usize = %d;`, line %d *)\nDefinition gen_NUM_LANES : nat := %d.\n"
            % (rel, num[0], num[1], num[0])), copy


# ----------------------------------------------------------------------------------------------
# (c) load / write of every impl
# ----------------------------------------------------------------------------------------------

def strip_parens(toks):
    while len(toks) >= 2 and toks[0].text == "(" and match_close(toks, 0) == len(toks) - 1:
        toks = toks[1:-1]
    return toks


def parse_ptr(toks, pname, where):
    """The pointer argument must be the `mem` parameter ITSELF (no offset), possibly cast.  -> cast?"""
    toks = strip_parens(toks)
    s = texts(toks)
    if s == [pname]:
        return False
    if s[:1] == [pname] and s[1:3] == [".", "cast"]:
        rest = toks[3:]
        if texts(rest) == ["(", ")"]:
            return True
        if len(rest) >= 4 and rest[0].text == "::" and rest[1].text == "<" and texts(rest[-3:]) == [">", "(", ")"]:
            return True
    if s[:2] == [pname, "as"]:
        rest = s[2:]
        if rest == ["_"] or (len(rest) >= 3 and rest[0] == "*" and rest[1] in ("const", "mut")
                             and all(re.match(r"^[A-Za-z_][A-Za-z0-9_]*$|^::$|^_$", x) for x in rest[2:])):
            return True
    raise TranslateError("%s: the pointer passed on is not the `%s` parameter itself (possibly cast): `%s`" % (where, pname, " ".join(s)))


PTR_FUNCS = {"read": "ptr::read", "write": "ptr::write", "read_unaligned": "ptr::read_unaligned",
             "write_unaligned": "ptr::write_unaligned"}


class MemScan:
    def __init__(self, REPO):
        self.REPO = REPO
        self.methods, defaults, self.dense_items = tf.parse_trait(REPO, None)
        self.defaults = dict(defaults)
        self.impls = {}       # (reg, ty|None) -> record
        self.order = []
        for rel, family in tf.IMPL_FILES:
            regtys = self.register_types(rel)
            for regn, ty, generics, fns, line in tf.parse_impls(REPO, rel, self.methods):
                if (regn, ty) in self.impls:
                    raise TranslateError("%s: SimdRegister<%s> implemented twice for %s" % (rel, ty, regn))
                if line not in regtys:
                    raise TranslateError("%s: impl at line %d has no `type Register = ..;`" % (rel, line))
                self.impls[(regn, ty)] = {"family": family, "regty": regtys[line], "fns": dict(fns), "file": rel,
                                          "generics": generics, "line": line}
                self.order.append((regn, ty))
        self.done = {}
        self.in_progress = []

    def register_types(self, rel):
        toks = tf.tokenize(tf.read(self.REPO, rel))
        out = {}
        for it in tf.top_items(toks, rel):
            kind, k = tf.item_kind(it["head"])
            if kind != "impl" or it["body"] is None:
                continue
            for m in tf.top_items(it["body"], rel):
                mk, mi = tf.item_kind(m["head"])
                if mk == "type":
                    s = texts(m["head"])
                    if len(s) >= 4 and s[mi + 1] == "Register" and s[mi + 2] == "=":
                        if it["line"] in out:
                            raise TranslateError("%s: two `type Register` in the impl at line %d" % (rel, it["line"]))
                        out[it["line"]] = "".join(s[mi + 3:])
        return out

    def elem_name(self, reg, ty):
        imp = self.impls[(reg, ty)]
        if ty is not None:
            return ty
        if len(imp["generics"]) != 1:
            raise TranslateError("%s: generic impl with %d type parameters" % (imp["file"], len(imp["generics"])))
        return imp["generics"][0]

    def find_impl(self, reg, ty):
        if (reg, ty) in self.impls:
            return (reg, ty)
        if (reg, None) in self.impls:
            return (reg, None)
        raise TranslateError("no `impl SimdRegister<%s> for %s`" % (ty, reg))

    def access(self, reg, ty, meth):
        """-> {"intrinsic", "cast", "via"} of `<reg as SimdRegister<ty>>::meth`; memoised; raises TranslateError."""
        key = (reg, ty, meth)
        if key in self.done:
            r = self.done[key]
            if isinstance(r, TranslateError):
                raise r
            return r
        if key in self.in_progress:
            raise TranslateError("recursive delegation through <%s as SimdRegister<%s>>::%s" % (reg, ty or "T", meth))
        self.in_progress.append(key)
        try:
            r = self.access_(reg, ty, meth)
            self.done[key] = r
            return r
        except TranslateError as ex:
            self.done[key] = ex
            raise
        finally:
            self.in_progress.pop()

    def access_(self, reg, ty, meth):
        imp = self.impls[(reg, ty)]
        T = self.elem_name(reg, ty)
        where = "%s: <%s as SimdRegister<%s>>::%s" % (imp["file"], reg, T, meth)
        it = imp["fns"].get(meth)
        if it is None:
            raise TranslateError("%s: not implemented (the trait has no default)" % where)
        where += " (line %d)" % it["line"]
        params, ret = fn_signature(it, where)
        norm = lambda t: t.replace("Self::Register", imp["regty"])       # noqa: E731
        if meth == "load":
            if len(params) != 1 or params[0][1] != "*const" + T or norm(ret or "") != imp["regty"]:
                raise TranslateError("%s: signature is not `fn load(mem: *const %s) -> Self::Register`" % (where, T))
            rname = None
        else:
            if len(params) != 2 or params[0][1] != "*mut" + T or norm(params[1][1]) != imp["regty"] or ret is not None:
                raise TranslateError("%s: signature is not `fn write(mem: *mut %s, reg: Self::Register)`" % (where, T))
            rname = params[1][0]
        pname = params[0][0]
        body = list(it["body"])
        if meth == "write" and body and body[-1].text == ";":
            body = body[:-1]
        body = strip_parens(body)
        if body and body[0].text == "unsafe" and len(body) > 1 and body[1].text == "{" and match_close(body, 1) == len(body) - 1:
            body = strip_parens(body[2:-1])
            if meth == "write" and body and body[-1].text == ";":
                body = body[:-1]
        s = texts(body)
        if any(x == ";" for x in s):
            raise TranslateError("%s: body is more than one expression: `%s`" % (where, " ".join(s)[:160]))
        if not s:
            raise TranslateError("%s: empty body" % where)

        def reg_arg(toks):
            if texts(strip_parens(toks)) != [rname]:
                raise TranslateError("%s: the value stored is not the `%s` parameter itself: `%s`" % (where, rname, " ".join(texts(toks))))

        # C. `*mem` / `*mem = reg`
        if s[0] == "*":
            if meth == "load":
                if parse_ptr(body[1:], pname, where):
                    raise TranslateError("%s: dereference of a CAST pointer changes the size read" % where)
                return {"intrinsic": "ptr::read", "cast": False, "via": []}
            if "=" in s:
                q = s.index("=")
                if parse_ptr(body[1:q], pname, where):
                    raise TranslateError("%s: assignment through a CAST pointer changes the size written" % where)
                reg_arg(body[q + 1:])
                return {"intrinsic": "ptr::write", "cast": False, "via": []}
            raise TranslateError("%s: body not understood: `%s`" % (where, " ".join(s)[:160]))
        # B. `mem.read()` / `mem.write(reg)` (the pointer itself: a cast would change the size accessed)
        if s[0] == pname and len(s) >= 5 and s[1] == "." and s[2] in PTR_FUNCS and s[3] == "(" and match_close(body, 3) == len(body) - 1:
            args = split_top(body[4:-1])
            f = s[2]
            if f.startswith("read") != (meth == "load"):
                raise TranslateError("%s: `%s` calls `.%s`" % (where, meth, f))
            if meth == "load":
                if args:
                    raise TranslateError("%s: `.%s()` takes no argument" % (where, f))
            else:
                if len(args) != 1:
                    raise TranslateError("%s: `.%s(..)` takes one argument" % (where, f))
                reg_arg(args[0])
            return {"intrinsic": PTR_FUNCS[f], "cast": False, "via": []}
        # qualified delegation `<X as SimdRegister<U>>::m(..)`
        if s[0] == "<":
            if not (len(s) >= 12 and s[2] == "as" and s[3] == "SimdRegister" and s[4] == "<" and s[6] == ">" and s[7] == ">"
                    and s[8] == "::" and s[10] == "(" and match_close(body, 10) == len(body) - 1):
                raise TranslateError("%s: qualified path not understood: `%s`" % (where, " ".join(s)[:160]))
            X, U, m = s[1], s[5], s[9]
            return self.delegate(reg, ty, T, meth, X, U, m, split_top(body[11:-1]), pname, reg_arg, where, explicit=True)
        # path call
        j, path = 0, []
        while j < len(body) and body[j].kind == "ident":
            path.append(s[j])
            if j + 1 < len(body) and s[j + 1] == "::":
                j += 2
                continue
            j += 1
            break
        if not path or j >= len(body) or s[j] != "(" or match_close(body, j) != len(body) - 1:
            raise TranslateError("%s: body is not ONE call on the `%s` parameter: `%s`" % (where, pname, " ".join(s)[:160]))
        args = split_top(body[j + 1:-1])
        name = path[-1]
        if len(path) == 2 and (path[0] in REGS or path[0] == "Self"):
            return self.delegate(reg, ty, T, meth, path[0], None, name, args, pname, reg_arg, where, explicit=False)
        if path[:-1] in (["ptr"], ["core", "ptr"], ["std", "ptr"]) and name in PTR_FUNCS:
            if name.startswith("read") != (meth == "load"):
                raise TranslateError("%s: `%s` calls `ptr::%s`" % (where, meth, name))
            if len(args) != (1 if meth == "load" else 2):
                raise TranslateError("%s: wrong number of arguments to ptr::%s" % (where, name))
            if parse_ptr(args[0], pname, where):
                raise TranslateError("%s: ptr::%s of a CAST pointer changes the size accessed" % (where, name))
            if meth == "write":
                reg_arg(args[1])
            return {"intrinsic": PTR_FUNCS[name], "cast": False, "via": []}
        if len(path) == 1 and (tf.X86_LIKE.match(name) or tf.NEON_LIKE.match(name)):
            if imp["family"] is None:
                raise TranslateError("%s: core::arch intrinsic `%s` in architecture-independent code" % (where, name))
            if len(args) != (1 if meth == "load" else 2):
                raise TranslateError("%s: `%s` called with %d argument(s): not a plain %s" % (
                    where, name, len(args), "load of the pointer" if meth == "load" else "store of the register to the pointer"))
            cast = parse_ptr(args[0], pname, where)
            if meth == "write":
                reg_arg(args[1])
            return {"intrinsic": name, "cast": cast, "via": []}
        raise TranslateError("%s: call of `%s` not understood (not an intrinsic, a core::ptr function or a delegation)" % (where, "::".join(path)))

    def delegate(self, reg, ty, T, meth, X, U, m, args, pname, reg_arg, where, explicit):
        if m != meth:
            raise TranslateError("%s: `%s` delegates to `%s`" % (where, meth, m))
        X = reg if X == "Self" else X
        if X not in REGS:
            raise TranslateError("%s: unknown implementor `%s`" % (where, X))
        if len(args) != (1 if meth == "load" else 2):
            raise TranslateError("%s: wrong number of arguments in the delegation" % where)
        cast = parse_ptr(args[0], pname, where)
        if meth == "write":
            reg_arg(args[1])
        if explicit:
            if U == T:
                uty = ty
            elif U in TYS:
                uty = U
            else:
                raise TranslateError("%s: element type `%s` of the delegation not understood" % (where, U))
        else:
            if cast:
                raise TranslateError("%s: `%s::%s(<cast pointer>)`: the element type of the callee cannot be read off the source; "
                                     "write `<%s as SimdRegister<U>>::%s`" % (where, X, m, X, m))
            uty = ty          # `*const T` argument: inference fixes the callee's element type to the caller's
        key = self.find_impl(X, uty)
        if (uty or "T") != (ty or "T") and not cast:
            raise TranslateError("%s: delegation at another element type without a pointer cast" % where)
        r = self.access(key[0], key[1], meth)
        if r["intrinsic"].startswith("ptr::") and (uty or "T") != (ty or "T"):
            raise TranslateError("%s: delegation to a `%s` at another element type changes the size accessed" % (where, r["intrinsic"]))
        return {"intrinsic": r["intrinsic"], "cast": cast or r["cast"],
                "via": ["<%s as SimdRegister<%s>>::%s" % (key[0], uty or "T", m)] + r["via"], "family_of": key}


def known_intrinsics():
    """{name: (kind, bytes | None, align | None)} as far as the rows of Model/MemIntrinsics.v are `ld` / `st` rows; other
    names (the ptr:: rows) map to None.  Only used to fail LOUDLY in the translator as well, and for the stdarch
    cross-check; the theorems do their own lookup."""
    src = open(MEMINTR_V).read()
    src = re.sub(r"\(\*.*?\*\)", "", src, flags=re.S)
    m = re.search(r"Definition\s+mem_intrinsics\b(.*?)\]\s*\.", src, flags=re.S)
    if not m:
        raise TranslateError("Model/MemIntrinsics.v: `Definition mem_intrinsics` not found")
    out = {}
    for r in re.finditer(r'\b(ld|st)\s+"([^"]+)"\s+(\d+)\s+(\d+)', m.group(1)):
        out[r.group(2)] = (r.group(1), int(r.group(3)), int(r.group(4)))
    for r in re.finditer(r'\(\s*"([^"]+)"\s*,', m.group(1)):
        out.setdefault(r.group(1), None)
    vec = {}
    m2 = re.search(r"Definition\s+vec_types\b(.*?)\]\s*\.", src, flags=re.S)
    if m2:
        for r in re.finditer(r'\(\s*"([^"]+)"\s*,\s*(\d+)\s*\)', m2.group(1)):
            vec[r.group(1)] = int(r.group(2))
    return out, vec


def stdarch_class(root, family, name):
    """How the pinned stdarch IMPLEMENTS a memory intrinsic: 'unaligned' | 'aligned' | 'asm' | 'unknown' | None (not found)."""
    dirs = {"x86": ["x86", "x86_64"], "arm": ["aarch64", "arm_shared"]}[family]
    rx = re.compile(r"^pub\s+(?:const\s+)?(?:unsafe\s+)?fn\s+%s\s*(?:<[^>]*>)?\s*\(" % re.escape(name), re.M)
    for d in dirs:
        for path in sorted(glob.glob(os.path.join(root, d, "**", "*.rs"), recursive=True)):
            with open(path, errors="replace") as f:
                src = f.read()
            m = rx.search(src)
            if not m:
                continue
            b = src.find("{", m.end())
            depth, j = 0, b
            while j < len(src):
                if src[j] == "{":
                    depth += 1
                elif src[j] == "}":
                    depth -= 1
                    if depth == 0:
                        break
                j += 1
            body = re.sub(r"//[^\n]*", "", src[b:j + 1])
            if re.search(r"read_unaligned|write_unaligned|copy_nonoverlapping", body):
                return "unaligned"
            if "asm!" in body:
                return "asm"
            if re.search(r"ptr::read\(|ptr::write\(|\.read\(\)|\.write\(|^\s*\{\s*\*|\*\s*mem_addr\s*=|\*\s*\(mem_addr", body):
                return "aligned"
            return "unknown"
    return None


# ----------------------------------------------------------------------------------------------
# driver
# ----------------------------------------------------------------------------------------------

METH = {"load": "MLoad", "write": "MWrite"}


def translate_all(REPO):
    errors = []
    sc = MemScan(REPO)
    fields = parse_dense(REPO)
    L = ["(* GENERATED by tools/translate_mem.py (step \"mem\") from cfavml/src/danger/core_simd_api.rs and impl_*.rs — do not\n"
         "   edit.  (a) the trait's default methods that touch memory / define the dense geometry, rendered statement by\n"
         "   statement over Model/SimdApi.v + Base/Mem.v; (b) who overrides them; (c) what `load` / `write` of every impl\n"
         "   call.  Theorems: Proofs/GenMemProofs.v, pinned in Props/C07Mem.v. *)",
         "From Coq Require Import List Arith Bool String.",
         "From CF Require Import Base.Mem Model.Tables Model.SimdApi Model.RegTable Model.MemIntrinsics.",
         "Import ListNotations.", ""]
    L.append("(* %s: `pub struct DenseLane<T>`: its fields, in declared order = positions 0.. of a [dense] *)" % tf.API_FILE)
    L.append("Definition gen_dense_fields : list string := [%s]." % "; ".join(cstr(f) + "%string" for f in fields))
    L.append("")
    translated, failed = [], {}
    try:
        num, copy = render_dense_items(sc.dense_items, fields)
        L += [num, copy]
        translated += ["NUM_LANES", "copy"]
    except TranslateError as ex:
        failed["DenseLane::{NUM_LANES,copy}"] = str(ex)
    sect = []
    for name in DEFAULTS_WANTED:
        where = "%s: SimdRegister::%s" % (tf.API_FILE, name)
        it = sc.defaults.get(name)
        try:
            if it is None:
                raise TranslateError("%s: not a default method of the trait any more" % where)
            if "copy" not in translated and name in ("filled_dense", "zeroed_dense"):
                raise TranslateError("%s: DenseLane::copy was not translated" % where)
            text = render_default(name, it, fields, where)
            if name == "elements_per_lane":
                L.append(text)
            else:
                sect.append(text)
            translated.append(name)
        except TranslateError as ex:
            failed[name] = str(ex)
    L.append("Section GenSimdApi.\n  Context {T : Type}.\n  Variable R : SimdOps T.\n")
    L += sect
    L.append("End GenSimdApi.\n")
    L.append("(* default methods the translator could NOT render (nothing is emitted for them) *)")
    L.append("Definition gen_simd_api_untranslated : list string := [%s]." % "; ".join(
        "%s%%string (* %s *)" % (cstr(n), failed[n].replace("*)", "* )")) for n in sorted(failed)))
    L.append("")

    # (b) overrides
    overrides = []
    for reg, ty in sc.order:
        for m in DEFAULTS_WANTED:
            if m in sc.impls[(reg, ty)]["fns"]:
                overrides.append((reg, ty or "T", m))
    L.append("(* (b) impls that OVERRIDE one of %s *)" % ", ".join(DEFAULTS_WANTED))
    L.append("Definition gen_dense_mem_overrides : list (string * string * string) := [%s]." % "; ".join(
        "(%s%%string, %s%%string, %s%%string)" % (cstr(a), cstr(b), cstr(c)) for a, b, c in overrides))
    L.append("")

    # (c) load / write
    known, vec = known_intrinsics()
    entries, untr, used = [], [], {}
    for reg, ty in sc.order:
        imp = sc.impls[(reg, ty)]
        T = sc.elem_name(reg, ty)
        regty = imp["regty"]
        for meth in ("load", "write"):
            try:
                r = sc.access(reg, ty, meth)
            except TranslateError as ex:
                untr.append((reg, ty or "T", meth, str(ex)))
                continue
            fam = sc.impls[r["family_of"]]["family"] if r.get("family_of") else imp["family"]
            used.setdefault(r["intrinsic"], fam)
            rt = "RT_elem" if regty == T else "(RT_vec %s)" % cstr(regty)
            entries.append({"reg": reg, "ty": ty, "meth": meth, "intrinsic": r["intrinsic"], "cast": r["cast"], "regty": regty,
                            "via": r["via"], "file": imp["file"], "line": imp["fns"][meth]["line"],
                            "coq": "{| me_reg := %s; me_ty := %s; me_meth := %s; me_intrinsic := %s; me_cast := %s; me_regty := %s; me_via := [%s] |}" % (
                                reg, "Some %s" % TYS[ty] if ty else "None", METH[meth], cstr(r["intrinsic"]),
                                "true" if r["cast"] else "false", rt, "; ".join(cstr(v) for v in r["via"]))})
            if r["intrinsic"] not in known:
                errors.append("%s line %d: <%s as SimdRegister<%s>>::%s calls `%s`, which has no row in coq/Model/MemIntrinsics.v "
                              "(what it touches is unknown)" % (imp["file"], imp["fns"][meth]["line"], reg, T, meth, r["intrinsic"]))
            if regty != T and regty not in vec:
                errors.append("%s line %d: `type Register = %s` has no size in coq/Model/MemIntrinsics.v (vec_types)" % (
                    imp["file"], imp["line"], regty))
    L.append("Open Scope string_scope.")
    L.append("(* (c) `load` / `write` of every `impl SimdRegister<..> for ..`, in source order *)")
    L.append("Definition gen_mem_table : list mem_entry := [\n  %s\n]." % ";\n  ".join(e["coq"] for e in entries)
             if entries else "Definition gen_mem_table : list mem_entry := [].")
    L.append("(* load / write bodies that are NOT one access on the pointer given (nothing is emitted for them) *)")
    L.append("Definition gen_mem_untranslated : list (string * string * string) := [%s]." % "; ".join(
        "(%s, %s, %s) (* %s *)" % (cstr(a), cstr(b), cstr(c), d.replace("*)", "* )")) for a, b, c, d in untr))
    L.append("(* every `impl SimdRegister<t> for r` of the five impl files (None: the generic `impl<T>`) *)")
    L.append("Definition gen_impl_pairs : list (reg * option ty) := [%s]." % "; ".join(
        "(%s, %s)" % (reg, "Some %s" % TYS[ty] if ty else "None") for reg, ty in sc.order))

    # cross-check of the trusted rows USED by the source against the pinned stdarch's own Rust bodies
    stdarch = {}
    try:
        root = tf.stdarch_root()
    except TranslateError:
        root = None
    for name, fam in sorted(used.items()):
        if root is None or fam is None or name.startswith("ptr::"):
            continue
        cls = stdarch_class(root, fam, name)
        stdarch[name] = cls
        row = known.get(name)
        if cls is None:
            errors.append("`%s` is not defined by the installed stdarch (%s)" % (name, fam))
        elif row and ((cls == "unaligned" and row[2] != 1) or (cls == "aligned" and row[2] == 1)):
            errors.append("Model/MemIntrinsics.v says `%s` needs alignment %d, the installed stdarch implements it as an %s access"
                          % (name, row[2], cls))
    L.append("(* how the pinned stdarch implements the intrinsics used (read_unaligned / write_unaligned / copy_nonoverlapping =\n"
             "   unaligned): %s *)" % ", ".join("%s: %s" % kv for kv in sorted(stdarch.items())))

    for n in sorted(failed):
        errors.append("untranslatable default: " + failed[n])
    for a, b, c, d in untr:
        errors.append("untranslatable: " + d)
    info = {"defaults_translated": translated, "defaults_untranslated": [{"name": n, "reason": failed[n]} for n in sorted(failed)],
            "dense_fields": fields, "overrides": ["%s/%s/%s" % o for o in overrides],
            "entries": [{k: e[k] for k in ("reg", "ty", "meth", "intrinsic", "cast", "regty", "via", "file", "line")} for e in entries],
            "untranslated": [{"reg": a, "ty": b, "method": c, "reason": d} for a, b, c, d in untr],
            "intrinsics_used": sorted(used), "stdarch_class": stdarch}
    return "\n".join(L) + "\n", info, errors


def gen_mem(facts, write_if_changed, GEN, REPO, out_path=None):
    text, info, errors = translate_all(REPO)
    write_if_changed(out_path or os.path.join(GEN, "GenSimdApi.v"), text)
    facts["mem"] = info
    if errors:
        raise TranslateError("; ".join(errors[:6]) + (" (+%d more)" % (len(errors) - 6) if len(errors) > 6 else ""))


def steps(facts, write_if_changed, GEN, REPO):
    return [("mem", lambda: gen_mem(facts, write_if_changed, GEN, REPO))]


if __name__ == "__main__":
    repo, outp = os.environ.get("VERIF_REPO", "/repo"), None
    av = sys.argv[1:]
    while av:
        a = av.pop(0)
        if a == "--repo":
            repo = av.pop(0)
        elif a == "--out":
            outp = av.pop(0)
        else:
            sys.exit("usage: translate_mem.py [--repo DIR] [--out FILE]")
    facts = {}

    def w(path, content):
        if outp:
            with open(path, "w") as f:
                f.write(content)
        else:
            sys.stdout.write(content)
    rc = 0
    try:
        gen_mem(facts, w, None, repo, out_path=outp or "-")
    except TranslateError as ex:
        print("TRANSLATE-ERROR step=mem %s" % ex, file=sys.stderr)
        rc = 1
    print(json.dumps({k: (v if not isinstance(v, list) or k != "entries" else len(v)) for k, v in facts.get("mem", {}).items()}),
          file=sys.stderr)
    sys.exit(rc)
