#!/usr/bin/env python3
"""translate_regs.py — the `regs` step of tools/translate.py (property C13).

Regenerates, on every run, an INSTRUCTION-LEVEL Gallina model of the register methods from the Rust source:

  coq/Gen/GenRegs.v            one definition `gen_<Reg>_<ty>_<method>` per (register, element type, trait method)
                               whose body (the impl's own, or the trait's default instantiated at that impl) is
                               straight-line code over the vocabulary of coq/Model/Intrinsics.v; the table
                               `gen_reg_table` of what was translated (packed by signature shape, Model/RegTable.v),
                               `gen_reg_methods` (its keys as strings) and `gen_reg_untranslated` with the reason.
  coq/Gen/GenRegsGoals<Reg>.v  one `Lemma gen_<Reg>_<ty>_<method>_ok : reg_goal ... . Proof. solve_method. Qed.` per
                               entry (statement schema: Proofs/GenRegsSpec.v, tactic: Proofs/GenRegsLemmas.v) and the
                               `Forall entry_goal` lemma over that register's part of the table.

The supported fragment: a block of `let <ident> = <expr>;` ending in an expression; expressions are calls of
core::arch intrinsics (with const-generic immediates `::<8>`, `::<{ super::_MM_SHUFFLE(2, 3, 0, 1) }>`), calls of
trait methods (`<X as SimdRegister<T>>::m(..)`, `Self::m(..)`, `Avx2::m(..)` = same element type, see translate_feat),
`AutoMath::m(..)` (Fallback), `DenseLane::copy(..)`, `DenseLane { a: .., .. }`, field access `.a`, `apply_dense!(..)`
(expanded from the macro_rules definition in core_simd_api.rs), integer / `0.0` literals, `e as T` between integer
types, `<<` `>>` `|` `&` `^` `*` `/` on integers, `mem::size_of::<..>()`, parameters and locals.
Scalar loops: `for (idx, (x, y)) in zip(A, B).enumerate() { .. arr[i] = e; .. }` over two arrays (the transmuted lanes)
is rendered with the loop combinator `for_zip_enum` of coq/Model/RustLoops.v, the array store `arr[i] = e` as `arr_set`
(an index out of bounds panics), `[v; N]` as `repeat v N`, `mem::transmute::<_, Self::Register>(array)` as `bytes_of`.
PANICS: an operation that can panic (`wrapping_div`, `AutoMath::div` / `Math::div` on a zero divisor, an array store) is
OPTION-valued (None = panic); code that uses it is sequenced with `obind` (a panic anywhere is a panic of the whole
body; panics are the only effect, so the order of evaluation does not show), and the method is registered with the
option-valued shape (`O_vvv`, `O_ddd`, ... of Model/RegTable.v): the generated lemma then says WHEN it panics, too.
A method whose body leaves this fragment (other loops, raw pointers, branching, bit-casts between float vector types) is
listed in `gen_reg_untranslated` with the reason and stays tied by correspondence (B) only.  Anything INSIDE the fragment
that cannot be parsed raises TranslateError.
"""
import os
import re
import sys

sys.path.insert(0, os.path.dirname(os.path.abspath(__file__)))
from rustlex import TranslateError, match_close, texts, split_top  # noqa: E402
import translate_feat as tf  # noqa: E402

TYS = tf.TYS
REGS = ["Fallback", "Avx2", "Avx2Fma", "Avx512", "Neon"]
INT_TYS = {"i8": (True, 8), "i16": (True, 16), "i32": (True, 32), "i64": (True, 64), "isize": (True, 64),
           "u8": (False, 8), "u16": (False, 16), "u32": (False, 32), "u64": (False, 64), "usize": (False, 64),
           "__mmask8": (False, 8), "__mmask16": (False, 16), "__mmask32": (False, 32), "__mmask64": (False, 64)}
FLOAT_TYS = ("f32", "f64")
# register types: (coq type, size in bytes)
VEC_TYS = {
    "__m128i": ("list Z", 16), "__m256i": ("list Z", 32), "__m512i": ("list Z", 64),
    "__m128": ("list f32", 16), "__m256": ("list f32", 32), "__m512": ("list f32", 64),
    "__m128d": ("list f64", 16), "__m256d": ("list f64", 32), "__m512d": ("list f64", 64),
    "int8x16_t": ("list Z", 16), "int16x8_t": ("list Z", 16), "int32x4_t": ("list Z", 16), "int64x2_t": ("list Z", 16),
    "uint8x16_t": ("list Z", 16), "uint16x8_t": ("list Z", 16), "uint32x4_t": ("list Z", 16), "uint64x2_t": ("list Z", 16),
    "float32x4_t": ("list f32", 16), "float64x2_t": ("list f64", 16),
}
SCALAR_SIZE = {"i8": 1, "u8": 1, "i16": 2, "u16": 2, "i32": 4, "u32": 4, "f32": 4, "i64": 8, "u64": 8, "f64": 8}

METH = {
    "elements_per_dense": "MElementsPerDense", "elements_per_lane": "MElementsPerLane", "load": "MLoad",
    "filled": "MFilled", "zeroed": "MZeroed", "load_dense": "MLoadDense", "filled_dense": "MFilledDense",
    "zeroed_dense": "MZeroedDense", "add": "MAdd", "sub": "MSub", "mul": "MMul", "div": "MDiv", "fmadd": "MFmadd",
    "max": "MMax", "min": "MMin", "add_dense": "MAddDense", "sub_dense": "MSubDense", "mul_dense": "MMulDense",
    "div_dense": "MDivDense", "fmadd_dense": "MFmaddDense", "max_dense": "MMaxDense", "min_dense": "MMinDense",
    "sum_to_value": "MSumToValue", "sum_to_register": "MSumToRegister", "max_to_value": "MMaxToValue",
    "max_to_register": "MMaxToRegister", "min_to_value": "MMinToValue", "min_to_register": "MMinToRegister",
    "write": "MWrite", "write_dense": "MWriteDense",
}
# signature shape of every trait method -> constructor of Model/RegTable.gen_def (None: pointer methods)
SHAPE = {
    "elements_per_dense": "D_n", "elements_per_lane": "D_n", "load": None, "filled": "D_sv", "zeroed": "D_v",
    "load_dense": None, "filled_dense": "D_sd", "zeroed_dense": "D_d", "add": "D_vvv", "sub": "D_vvv", "mul": "D_vvv",
    "div": "D_vvv", "fmadd": "D_vvvv", "max": "D_vvv", "min": "D_vvv", "add_dense": "D_ddd", "sub_dense": "D_ddd",
    "mul_dense": "D_ddd", "div_dense": "D_ddd", "fmadd_dense": "D_dddd", "max_dense": "D_ddd", "min_dense": "D_ddd",
    "sum_to_value": "D_vs", "sum_to_register": "D_dv", "max_to_value": "D_vs", "max_to_register": "D_dv",
    "min_to_value": "D_vs", "min_to_register": "D_dv", "write": None, "write_dense": None,
}
FB_SHAPE = {"D_n": "FB_n", "D_v": "FB_v", "D_sv": "FB_sv", "D_vvv": "FB_vvv", "D_vvvv": "FB_vvvv", "D_vs": "FB_vs",
            "D_d": "FB_d", "D_sd": "FB_sd", "D_ddd": "FB_ddd", "D_dddd": "FB_dddd", "D_dv": "FB_dv"}
# option-valued (panic-aware) counterparts of the shapes (Model/RegTable.v)
OPT_SHAPE = {"D_vvv": "O_vvv", "D_vvvv": "O_vvvv", "D_ddd": "O_ddd", "D_dddd": "O_dddd", "D_dv": "O_dv"}
FB_OPT_SHAPE = {"D_vvv": "FB_vvvo", "D_ddd": "FB_dddo"}
MATH_METHODS = {"zero": "m_zero", "one": "m_one", "max": "m_max", "min": "m_min", "sqrt": "m_sqrt", "abs": "m_abs",
                "cmp_eq": "m_cmp_eq", "cmp_min": "m_cmp_min", "cmp_max": "m_cmp_max", "add": "m_add", "sub": "m_sub",
                "mul": "m_mul"}
MATH_PARTIAL = {"div": "m_div"}        # Math::div: `a.wrapping_div(b)` on the integer types panics on a zero divisor
# intrinsics that the byte/lane-list representation of Model/Intrinsics.v deliberately does not model
UNMODELLED = {"_mm_undefined_ps": "an undefined (poison) register", "_mm_undefined_pd": "an undefined (poison) register",
              "_mm_castpd_ps": "a bit-cast between float vector types", "_mm_castps_pd": "a bit-cast between float vector types",
              "_mm_castsi128_ps": "a bit-cast between vector types", "_mm_castps_si128": "a bit-cast between vector types"}
DENSE_FIELDS = ["a", "b", "c", "d", "e", "f", "g", "h"]
INTRINSICS_V = os.path.join(os.path.dirname(os.path.dirname(os.path.abspath(__file__))), "coq", "Model", "Intrinsics.v")


class Skip(Exception):
    """The method body leaves the supported fragment: listed as untranslated with this reason."""

    def __init__(self, msg, cat="other"):
        Exception.__init__(self, msg)
        self.cat = cat


# ----------------------------------------------------------------------------------------------
# types (of the Rust side, as far as the translation needs them)
# ----------------------------------------------------------------------------------------------

def ty_text(toks):
    return "".join(texts(toks))


class Env:
    """Instance context: what `Self`, `Self::Register`, `T` stand for."""

    def __init__(self, reg, ty, regty, generic):
        self.reg, self.ty, self.regty, self.generic = reg, ty, regty, generic

    def resolve(self, s):
        """Rust type text -> canonical type text."""
        s = s.replace("Self::Register", self.regty)
        if self.generic:
            return s
        return re.sub(r"(?<![A-Za-z0-9_])T(?![A-Za-z0-9_])", self.ty, s)


def coq_type(t, where):
    if t == "T":
        return "T"
    if t in VEC_TYS:
        return VEC_TYS[t][0]
    if t in INT_TYS:
        return "Z"
    if t in FLOAT_TYS:
        return t
    m = re.match(r"^DenseLane<(.+)>$", t)
    if m:
        return "DenseLane (%s)" % coq_type(m.group(1), where)
    if t.startswith("["):
        ety, _ = array_type(t)
        return "list (%s)" % coq_type(ety, where)
    raise TranslateError("%s: type `%s` has no Coq counterpart" % (where, t))


# ----------------------------------------------------------------------------------------------
# stdarch signatures of the intrinsics used (arity, const generics, scalar return type)
# ----------------------------------------------------------------------------------------------

_SIG_CACHE = {}


def stdarch_sigs(root, family):
    """{name: (n_const_generics, [param types], return type text | None)} for every `pub fn` of the family's files
    (first definition wins; cfg-duplicates have the same signature)."""
    key = (root, family)
    if key in _SIG_CACHE:
        return _SIG_CACHE[key]
    out = {}
    rx = re.compile(r"^pub\s+(?:const\s+)?(?:unsafe\s+)?fn\s+([A-Za-z_][A-Za-z0-9_]*)\s*(<[^>]*>)?\s*\(([^)]*)\)\s*(?:->\s*([^{]+?))?\s*\{",
                    re.M | re.S)
    import glob
    for d in tf.STDARCH_DIRS[family]:
        for path in sorted(glob.glob(os.path.join(root, d, "**", "*.rs"), recursive=True)):
            with open(path, errors="replace") as f:
                src = f.read()
            for m in rx.finditer(src):
                name, gens, params, ret = m.group(1), m.group(2), m.group(3), m.group(4)
                ngen = len(re.findall(r"\bconst\s+\w+\s*:", gens)) if gens else 0
                ptys = []
                for p in params.split(","):
                    p = p.strip()
                    if p:
                        ptys.append(p.split(":", 1)[1].strip() if ":" in p else p)
                out.setdefault(name, (ngen, ptys, ret.strip() if ret else None))
    _SIG_CACHE[key] = out
    return out


# ----------------------------------------------------------------------------------------------
# macro_rules! apply_dense
# ----------------------------------------------------------------------------------------------

def parse_macro(toks, name, rel):
    """arms of `macro_rules! name { (pat) => {body}; ... }` as [([(var, frag)], body tokens)]."""
    for i, t in enumerate(toks):
        if t.text == "macro_rules" and toks[i + 1].text == "!" and toks[i + 2].text == name:
            e = match_close(toks, i + 3)
            inner = toks[i + 4:e]
            arms, j = [], 0
            while j < len(inner):
                if inner[j].text != "(":
                    raise TranslateError("%s: macro %s: arm pattern not understood (line %d)" % (rel, name, inner[j].line))
                pe = match_close(inner, j)
                pat = inner[j + 1:pe]
                if inner[pe + 1].text != "=>" or inner[pe + 2].text != "{":
                    raise TranslateError("%s: macro %s: arm without `=> {` (line %d)" % (rel, name, inner[pe].line))
                be = match_close(inner, pe + 2)
                body = inner[pe + 3:be]
                vars_ = []
                for part in split_top(pat):
                    s = texts(part)
                    if len(s) != 3 or not s[0].startswith("$") or s[1] != ":" or s[2] not in ("expr", "ident", "path", "tt"):
                        raise TranslateError("%s: macro %s: pattern fragment `%s` not understood" % (rel, name, " ".join(s)))
                    vars_.append((s[0], s[2]))
                arms.append((vars_, body))
                j = be + 1
                if j < len(inner) and inner[j].text == ";":
                    j += 1
            return arms
    raise TranslateError("%s: macro_rules! %s not found" % (rel, name))


def expand_macro(arms, name, args, line):
    """token list of the arm body with the arguments substituted (arms are tried in order by argument count)."""
    for vars_, body in arms:
        if len(vars_) == len(args):
            sub = dict(zip([v for v, _ in vars_], args))
            for (v, frag), a in zip(vars_, args):
                if frag == "ident" and not (len(a) == 1 and a[0].kind == "ident"):
                    raise TranslateError("%s!: argument for %s must be an identifier (line %d)" % (name, v, line))
                depth = 0
                for t in a:
                    if t.text == "{":
                        depth += 1
                    elif t.text == "}":
                        depth -= 1
                    if depth == 0 and t.text in ("(", "+", "-", "*", "/", "as", "|", "&"):
                        raise TranslateError("%s!: argument `%s` is not a plain path (line %d); substitution without "
                                             "parentheses would change its meaning" % (name, " ".join(texts(a)), line))
            out = []
            for t in body:
                if t.kind == "ident" and t.text.startswith("$"):
                    if t.text not in sub:
                        raise TranslateError("%s!: unbound macro variable %s" % (name, t.text))
                    out += sub[t.text]
                else:
                    out.append(t)
            return out
    raise TranslateError("%s!: no arm takes %d arguments (line %d)" % (name, len(args), line))


# ----------------------------------------------------------------------------------------------
# expression parser (recursive descent over rustlex tokens) -> Gallina text
# ----------------------------------------------------------------------------------------------

class Val:
    """A translated expression: Gallina text + the Rust type when known (None = unknown / inferred by Coq)."""
    __slots__ = ("coq", "ty", "opt")

    def __init__(self, coq, ty=None, opt=False):
        self.coq, self.ty, self.opt = coq, ty, opt      # opt: the text is OPTION-valued (a block that may panic)


class Translator:
    def __init__(self, REPO):
        self.REPO = REPO
        self.root = tf.stdarch_root()
        self.methods, self.defaults, self.dense_items = tf.parse_trait(REPO, None)
        self.defaults = dict(self.defaults)
        api_toks = tf.tokenize(tf.read(REPO, tf.API_FILE))
        self.apply_dense = parse_macro(api_toks, "apply_dense", tf.API_FILE)
        self.check_dense_struct(api_toks)
        self.dense_fns, self.dense_consts = {}, {}
        for d in self.dense_items:
            for m in tf.top_items(d["body"], tf.API_FILE):
                mk, mi = tf.item_kind(m["head"])
                if mk == "fn":
                    self.dense_fns[tf.fn_name(m["head"], mi)] = m
                elif mk == "const":
                    s = texts(m["head"])
                    k = s.index("const")
                    if len(s) < k + 6 or s[k + 2] != ":" or s[k + 4] != "=":
                        raise TranslateError("%s: DenseLane constant not understood: %s" % (tf.API_FILE, " ".join(s)))
                    self.dense_consts[s[k + 1]] = (s[k + 3], m["head"][k + 5:])
        self.mod_fns = dict(tf.parse_free_fns(REPO, tf.MOD_FILE))
        self.known = set(re.findall(r"^\s*Definition\s+([A-Za-z_][\w']*)", open(INTRINSICS_V).read(), flags=re.M))
        self.known |= set(re.findall(r"\.\s+Definition\s+([A-Za-z_][\w']*)", open(INTRINSICS_V).read()))
        # impls
        self.impls = {}        # (reg, ty|None) -> {"family", "regty", "fns": {name: item}, "file", "generic"}
        for rel, family in tf.IMPL_FILES:
            parsed = tf.parse_impls(REPO, rel, self.methods)
            regtys = self.register_types(rel)
            for regn, ty, generics, fns, line in parsed:
                if (regn, ty) in self.impls:
                    raise TranslateError("%s: SimdRegister<%s> implemented twice for %s" % (rel, ty, regn))
                if line not in regtys:
                    raise TranslateError("%s: impl at line %d has no `type Register = ..;`" % (rel, line))
                self.impls[(regn, ty)] = {"family": family, "regty": regtys[line], "fns": dict(fns), "file": rel,
                                          "generic": ty is None, "generics": generics}
        self.done = {}         # key -> ("ok", coqname, text) | ("skip", reason)
        self.order = []        # keys in definition order
        self.helpers = {}      # helper name -> text (DenseLane::copy, _MM_SHUFFLE, ...), in order
        self.helper_order = []
        self.helper_ret = {}
        self.in_progress = []
        self.failed = []       # (key, error text): inside the fragment but not parseable
        self.cats = {}         # key -> category of the reason it was not translated
        self.used_intr = []    # Coq names of the intrinsics mentioned by translated code, in order of first use
        self.partial = set()   # keys of the translated methods whose definition is option-valued (may panic)
        self.used_math = []    # Gen/GenMath.v records mentioned (`AutoMath::m` at a concrete element type)
        self.fresh_n = 0

    # -- source structure -----------------------------------------------------------------------
    def check_dense_struct(self, toks):
        for it in tf.top_items(toks, tf.API_FILE):
            kind, k = tf.item_kind(it["head"])
            if kind == "struct" and it["head"][k + 1].text == "DenseLane":
                if it["body"] is None:
                    raise TranslateError("%s: struct DenseLane without named fields" % tf.API_FILE)
                fields = []
                for part in split_top(it["body"]):
                    s = [x for x in texts(part) if x != "pub"]
                    if len(s) != 3 or s[1] != ":" or s[2] != "T":
                        raise TranslateError("%s: DenseLane field not understood: %s" % (tf.API_FILE, " ".join(s)))
                    fields.append(s[0])
                if fields != DENSE_FIELDS:
                    raise TranslateError("%s: DenseLane fields are %s; Model/Intrinsics.DenseLane has a..h" % (tf.API_FILE, fields))
                return
        raise TranslateError("%s: struct DenseLane not found" % tf.API_FILE)

    def register_types(self, rel):
        """{impl line: register type text} from `type Register = X;`."""
        toks = tf.tokenize(tf.read(self.REPO, rel))
        out = {}
        for it in tf.top_items(toks, rel):
            kind, k = tf.item_kind(it["head"])
            if kind != "impl" or it["body"] is None:
                continue
            for m in tf.top_items(it["body"], rel):
                mk, mi = tf.item_kind(m["head"])
                if mk == "type":
                    s = texts(m["head"])
                    if len(s) >= 4 and s[mi + 1] == "Register" and s[mi + 2] == "=":
                        out[it["line"]] = "".join(s[mi + 3:])
        return out

    # -- method lookup --------------------------------------------------------------------------
    def instance(self, reg, ty):
        """(impl record, element type used for naming) of `impl SimdRegister<ty> for reg`."""
        if (reg, ty) in self.impls:
            return self.impls[(reg, ty)]
        if (reg, None) in self.impls:
            return self.impls[(reg, None)]
        raise TranslateError("no `impl SimdRegister<%s> for %s`" % (ty, reg))

    def coq_name(self, reg, ty, m):
        return "gen_%s_%s" % (reg, m) if ty is None else "gen_%s_%s_%s" % (reg, ty, m)

    def translate_method(self, reg, ty, m):
        """-> ("ok", coq name) or ("skip", reason); memoised; definitions are appended in dependency order."""
        imp = self.instance(reg, ty)
        if imp["generic"]:
            ty = None
        key = (reg, ty, m)
        if key in self.done:
            return self.done[key][:2]
        if key in self.in_progress:
            raise TranslateError("recursive method definition through %s" % (key,))
        self.in_progress.append(key)
        where = "%s: <%s as SimdRegister<%s>>::%s" % (imp["file"], reg, ty or "T", m)
        try:
            own = m in imp["fns"]
            it = imp["fns"][m] if own else self.defaults.get(m)
            if it is None:
                raise TranslateError("%s: neither implemented nor defaulted" % where)
            env = Env(reg, ty, imp["regty"], imp["generic"])
            text, opt = self.translate_fn(it, self.coq_name(reg, ty, m), env, imp["family"], where,
                                          "impl" if own else "trait default (core_simd_api.rs)")
            if opt:
                shape = SHAPE[m]
                if (FB_OPT_SHAPE if ty is None else OPT_SHAPE).get(shape) is None:
                    raise TranslateError("%s: the body may panic, and Model/RegTable.v has no option-valued form of shape %s"
                                         % (where, shape))
                if ty in FLOAT_TYS:
                    raise TranslateError("%s: a float method that may panic (no option-valued float shapes)" % where)
                self.partial.add(key)
            self.done[key] = ("ok", self.coq_name(reg, ty, m), text)
            self.order.append(key)
        except Skip as s:
            self.done[key] = ("skip", str(s), None)
            self.cats[key] = s.cat
        except TranslateError as ex:
            self.failed.append((key, str(ex)))
            self.done[key] = ("skip", "TRANSLATION FAILED: " + str(ex), None)
        finally:
            self.in_progress.pop()
        return self.done[key][:2]

    # -- functions ------------------------------------------------------------------------------
    def parse_sig(self, head, where, env):
        """([(name, type)], return type | None) of a fn item head."""
        s = texts(head)
        k = s.index("fn")
        j = k + 2
        if s[j] == "<":
            raise TranslateError("%s: generic method" % where)
        if s[j] != "(":
            raise TranslateError("%s: fn signature not understood" % where)
        e = match_close(head, j)
        params = []
        for part in split_top(head[j + 1:e]):
            ps = texts(part)
            if len(ps) < 3 or ps[1] != ":":
                raise TranslateError("%s: parameter not understood: %s" % (where, " ".join(ps)))
            params.append((ps[0], env.resolve("".join(ps[2:]))))
        ret = None
        if e + 1 < len(head):
            if s[e + 1] != "->":
                raise TranslateError("%s: unexpected tokens after the parameter list: %s" % (where, " ".join(s[e + 1:])))
            ret = env.resolve("".join(s[e + 2:]))
        return params, ret

    def prescan(self, params, body, where):
        """Constructs outside the supported fragment -> Skip(reason)."""
        for n, t in params:
            if t.startswith("*"):
                raise Skip("raw-pointer code (parameter `%s: %s`): memory access, modelled at index level (C13_load_write) "
                           "and observed by the guard-page runs" % (n, t), "raw pointers (load / write)")
        s = texts(body)
        reasons = []
        if "loop" in s:
            reasons.append("a scalar loop" + (" over mem::transmute'd arrays" if "transmute" in s else ""))
        if any(x in s for x in ("if", "match", "return")):
            reasons.append("branching")
        for x in s:
            if x in UNMODELLED:
                reasons.append("`%s`: %s (not representable in the lane-list model)" % (x, UNMODELLED[x]))
        if reasons:
            uniq = []
            for r in reasons:
                if r not in uniq:
                    uniq.append(r)
            cat = ("scalar loop over transmuted arrays" if any(r.startswith("a scalar loop") for r in uniq) else
                   "poison register / bit-cast between float vector types" if any("not representable" in r for r in uniq) else "other")
            raise Skip("; ".join(uniq), cat)

    def translate_fn(self, it, name, env, family, where, origin):
        params, ret = self.parse_sig(it["head"], where, env)
        self.prescan(params, it["body"], where)
        scope = {n: t for n, t in params}
        p = Parser(self, it["body"], env, family, where, scope)
        saved_n, self.fresh_n = self.fresh_n, 0
        try:
            val = p.block_to_end()
        finally:
            self.fresh_n = saved_n
        binders = "".join(" (v_%s : %s)" % (n, coq_type(t, where)) for n, t in params)
        pre = " {T : Type} (Mt : MathOps T)" if env.generic else ""
        if val.opt and not ret:
            raise TranslateError("%s: a body that may panic in a method without a return type" % where)
        rett = (" : option (%s)" % coq_type(ret, where)) if val.opt else (" : " + coq_type(ret, where)) if ret else ""
        note = ", MAY PANIC (None)" if val.opt else ""
        return ("(* %s, line %d, %s%s *)\nDefinition %s%s%s%s :=\n  %s.\n"
                % (where, it["line"], origin, note, name, pre, binders, rett, val.coq)), val.opt

    def helper_fn(self, hname, it, where, generic_tvar=None):
        """Translate a free helper (`DenseLane::copy`, a `const fn` of danger/mod.rs) once; returns its Coq name."""
        cname = "gen_" + hname.replace("::", "_").lstrip("_")
        cname = re.sub(r"__+", "_", cname)
        if cname in self.helpers:
            return cname
        env = Env(None, None, "Self::Register", True)
        s = texts(it["head"])
        k = s.index("fn")
        j = k + 2
        e = match_close(it["head"], j)
        params = []
        for part in split_top(it["head"][j + 1:e]):
            ps = texts(part)
            if len(ps) < 3 or ps[1] != ":":
                raise TranslateError("%s: parameter not understood: %s" % (where, " ".join(ps)))
            params.append((ps[0], "".join(ps[2:])))
        ret = "".join(s[e + 2:]) if e + 1 < len(s) and s[e + 1] == "->" else None
        self.prescan(params, it["body"], where)
        scope = {n: t for n, t in params}
        p = Parser(self, it["body"], env, None, where, scope, self_struct="DenseLane" if generic_tvar else None)
        val = p.block_to_end()
        if val.opt:
            raise TranslateError("%s: a helper function that may panic" % where)
        if generic_tvar:
            binders = " {A : Type}" + "".join(" (v_%s : A)" % n for n, _ in params)
            rett = " : DenseLane A"
        else:
            binders = "".join(" (v_%s : %s)" % (n, coq_type(t, where)) for n, t in params)
            rett = (" : " + coq_type(ret, where)) if ret else ""
        self.helpers[cname] = "(* %s, line %d *)\nDefinition %s%s%s :=\n  %s.\n" % (where, it["line"], cname, binders, rett, val.coq)
        self.helper_order.append(cname)
        self.helper_ret[cname] = ret
        return cname


def cast_to(v, target, where):
    """`e as target` for integer types."""
    if target in FLOAT_TYS or (v.ty in FLOAT_TYS):
        raise TranslateError("%s: `as` involving a float type is outside the supported fragment" % where)
    if target not in INT_TYS:
        raise TranslateError("%s: `as %s` not understood" % (where, target))
    sg2, w2 = INT_TYS[target]
    if v.ty is None:
        raise TranslateError("%s: `as %s` applied to an expression whose type the translator does not know" % (where, target))
    if v.ty == "{integer}":
        return Val("(rs_cast true 128 %d %s)" % (w2, v.coq), target)
    if v.ty not in INT_TYS:
        raise TranslateError("%s: `as %s` applied to a value of type %s" % (where, target, v.ty))
    sg1, w1 = INT_TYS[v.ty]
    if w1 == w2:
        return Val(v.coq, target)           # same width: identity on bit patterns
    return Val("(rs_cast %s %d %d %s)" % ("true" if sg1 else "false", w1, w2, v.coq), target)


def array_type(t):
    m = re.match(r"^\[(\w+);(\d+)\]$", t)
    if not m:
        raise TranslateError("array type `%s` not understood" % t)
    return m.group(1), int(m.group(2))


def index_expr(coq, ety, k):
    return "(fnth %d %s)" % (k, coq) if ety in FLOAT_TYS else "(nth %d %s 0)" % (k, coq)


BINOPS = [("|", "rs_or"), ("^", "rs_xor"), ("&", "rs_and"), ("<<", "rs_shl"), (">>", "rs_shr"),
          ("+", "Z.add"), ("-", "Z.sub"), ("*", "Z.mul"), ("/", "Z.div")]
PREC = {"|": 1, "^": 2, "&": 3, "<<": 4, ">>": 4, "+": 5, "-": 5, "*": 6, "/": 6}


class Parser:
    def __init__(self, tr, toks, env, family, where, scope, self_struct=None):
        self.tr, self.toks, self.env, self.family, self.where = tr, toks, env, family, where
        self.scope = dict(scope)
        self.i = 0
        self.self_struct = self_struct
        self.mutable = set()
        self.consts = {}        # counted-loop variables whose value is known at translation time
        self.pending = []       # (name, option-valued Gallina): operations of the current statement that may panic
        self.loop_state = None  # inside a `for` body: the one array the body stores into (the loop's state)

    def sub(self, toks):
        """A parser for a sub-expression: same instance, same locals, same counted-loop constants."""
        p = Parser(self.tr, toks, self.env, self.family, self.where, self.scope, self.self_struct)
        p.mutable, p.consts, p.pending, p.loop_state = self.mutable, self.consts, self.pending, self.loop_state
        return p

    # -- panics: option-valued operations are bound (obind) in front of the statement that uses their value --
    def partial(self, coq, ty):
        self.tr.fresh_n += 1
        t = "o%d" % self.tr.fresh_n
        self.pending.append((t, coq))
        return Val(t, ty)

    def flush(self, lets):
        for t, coq in self.pending:
            lets.append("obind %s (fun %s =>" % (coq, t))
        del self.pending[:]

    def close(self, lets, v):
        """Value of a block = its statements, then the final expression; option-valued as soon as one statement may panic."""
        self.flush(lets)
        n = sum(1 for x in lets if x.startswith("obind "))
        if n == 0:
            return v if not lets else Val("\n  ".join(lets + [v.coq]), v.ty)
        final = "Some %s" % v.coq
        m = re.match(r"^obind (.*) \(fun (\w+) =>$", lets[-1], re.S)
        if m and v.coq == m.group(2):          # `obind X (fun t => Some t)` is X
            lets, final, n = lets[:-1], m.group(1), n - 1
        return Val("\n  ".join(lets + [final]) + ")" * n, v.ty, True)

    # -- token helpers --
    def peek(self, k=0):
        return self.toks[self.i + k].text if self.i + k < len(self.toks) else None

    def tok(self):
        return self.toks[self.i] if self.i < len(self.toks) else None

    def line(self):
        return self.toks[min(self.i, len(self.toks) - 1)].line if self.toks else 0

    def err(self, msg):
        raise TranslateError("%s: line %d: %s (at `%s`)" % (self.where, self.line(), msg, " ".join(texts(self.toks[self.i:self.i + 6]))))

    def eat(self, x):
        if self.peek() != x:
            self.err("expected `%s`" % x)
        self.i += 1

    # -- blocks --
    def block_to_end(self):
        v = self.block()
        if self.i != len(self.toks):
            self.err("trailing tokens after the final expression")
        return v

    def block(self):
        lets = []
        saved = dict(self.scope)
        outer = list(self.pending)          # what the enclosing statement has evaluated so far stays with that statement
        del self.pending[:]
        v = self.close(lets, self.statements(lets, final=True))
        self.pending[:] = outer
        self.scope = saved
        return v

    def const_eval(self, toks):
        """Value of an index / bound expression made of literals, counted-loop variables and + - *; None if not constant."""
        txt = []
        for t in toks:
            if t.kind == "num" and re.match(r"^[0-9][0-9_]*(usize)?$", t.text):
                txt.append(str(int(t.text.replace("usize", "").replace("_", ""))))
            elif t.kind == "ident" and t.text in self.consts:
                txt.append(str(self.consts[t.text]))
            elif t.text in ("+", "-", "*", "(", ")"):
                txt.append(t.text)
            else:
                return None
        try:
            return int(eval(" ".join(txt), {"__builtins__": {}}, {}))
        except Exception:
            return None

    def statements(self, lets, final):
        """Statements up to the end of the token list; with [final] the last item is the block's value.
        Straight-line code with `let mut` locals is SSA-renamed; a counted `while <i> < <bound> { .. <i> += <k>; }` loop
        whose counter and bound are compile-time constants is unrolled (the counter never reaches the Gallina)."""
        while True:
            if self.peek() is None:
                if final:
                    self.err("block without a final expression")
                return None
            if self.peek() == "while":
                self.i += 1
                j = self.i
                while j < len(self.toks) and self.toks[j].text != "{":
                    j += 1
                cond = self.toks[self.i:j]
                if j >= len(self.toks):
                    self.err("`while` without a body")
                e = match_close(self.toks, j)
                body = self.toks[j + 1:e]
                self.i = e + 1
                ct = texts(cond)
                if "<" not in ct or ct.count("<") != 1:
                    raise Skip("a `while` loop whose condition is not `<counter> < <constant>`", "scalar loop over transmuted arrays")
                k = ct.index("<")
                n_iter = 0
                while True:
                    lhs, rhs = self.const_eval(cond[:k]), self.const_eval(cond[k + 1:])
                    if lhs is None or rhs is None:
                        raise Skip("a `while` loop whose counter or bound is not a compile-time constant", "scalar loop over transmuted arrays")
                    if not lhs < rhs:
                        break
                    n_iter += 1
                    if n_iter > 1024:
                        self.err("counted loop does not terminate within 1024 iterations")
                    p = Parser(self.tr, body, self.env, self.family, self.where, {}, self.self_struct)
                    p.scope, p.mutable, p.consts, p.pending, p.loop_state = self.scope, self.mutable, self.consts, self.pending, self.loop_state
                    p.statements(lets, final=False)
                continue
            if self.peek() == "for":
                self.for_loop(lets)
                continue
            if (self.tok().kind == "ident" and self.peek(1) == "[" and (self.scope.get(self.peek()) or "").startswith("[")
                    and (self.peek() == self.loop_state or (self.loop_state is None and self.peek() in self.mutable))):
                ce = match_close(self.toks, self.i + 1)
                if ce + 1 < len(self.toks) and self.toks[ce + 1].text == "=":
                    # `arr[i] = e;` on a `let mut` array: a store, out of bounds panics (Model/RustLoops.arr_set)
                    name = self.peek()
                    ip = self.sub(self.toks[self.i + 2:ce])
                    iv = ip.expr()
                    if ip.i != ce - self.i - 2:
                        ip.err("array index not understood")
                    if iv.ty not in ("usize", "{integer}"):
                        self.err("array index of type %s" % iv.ty)
                    self.i = ce + 2
                    v = self.expr()
                    self.eat(";")
                    ety, _n = array_type(self.scope[name])
                    if v.ty != ety and v.ty != "{integer}":
                        self.err("a value of type %s stored into an array of %s" % (v.ty, ety))
                    self.flush(lets)
                    lets.append("obind (arr_set v_%s %s %s) (fun v_%s =>" % (name, iv.coq, v.coq, name))
                    continue
            if self.tok().kind == "ident" and self.peek(1) in ("+=", "-=") and self.peek() in self.consts:
                name, op = self.peek(), self.peek(1)
                self.i += 2
                j = self.i
                while j < len(self.toks) and self.toks[j].text != ";":
                    j += 1
                d = self.const_eval(self.toks[self.i:j])
                if d is None:
                    raise Skip("loop counter updated by a non-constant", "scalar loop over transmuted arrays")
                self.consts[name] += d if op == "+=" else -d
                self.i = j
                self.eat(";")
                continue
            if self.tok().kind == "ident" and self.peek(1) == "=" and self.peek() in self.mutable:
                # assignment to a `let mut` local = rebinding (no references or closures in this fragment)
                name = self.peek()
                self.i += 2
                v = self.expr()
                self.eat(";")
                self.consts.pop(name, None)
                self.flush(lets)
                lets.append("let v_%s := %s in" % (name, v.coq))
                continue
            if self.peek() == "let":
                self.i += 1
                is_mut = False
                if self.peek() == "mut":
                    self.i += 1
                    is_mut = True
                    if self.tok() is not None:
                        self.mutable.add(self.tok().text)
                t = self.tok()
                if t is not None and t.text == "[":
                    # `let [a, b, ..] = <array>;`
                    e = match_close(self.toks, self.i)
                    names = []
                    for part in split_top(self.toks[self.i + 1:e]):
                        if len(part) != 1 or part[0].kind != "ident":
                            self.err("array pattern element is not a plain identifier")
                        names.append(part[0].text)
                    self.i = e + 1
                    self.eat("=")
                    v = self.expr()
                    self.eat(";")
                    if not (v.ty and v.ty.startswith("[")):
                        self.err("array pattern bound to a value that is not an array")
                    ety, n = array_type(v.ty)
                    if n != len(names):
                        self.err("array pattern with %d names for an array of %d" % (len(names), n))
                    tmp = "v_%s_arr" % "_".join(names)
                    self.flush(lets)
                    lets.append("let %s := %s in" % (tmp, v.coq))
                    for k, nm in enumerate(names):
                        self.scope[nm] = ety
                        lets.append("let v_%s := %s in" % (nm, index_expr(tmp, ety, k)))
                    continue
                if t is None or t.kind != "ident":
                    self.err("`let` pattern is not a plain identifier")
                name = t.text
                self.i += 1
                ann = None
                if self.peek() == ":":
                    self.i += 1
                    ann = self.type_text(stop=("=",))
                self.eat("=")
                start = self.i
                v = self.expr()
                init = self.toks[start:self.i]
                self.eat(";")
                self.scope[name] = ann and self.env.resolve(ann) or v.ty
                self.consts.pop(name, None)
                if is_mut and ann is None and v.ty == "{integer}" and len(init) == 1:
                    # an un-annotated integer `let mut i = 0;`: a loop counter / index, tracked at translation time
                    self.consts[name] = int(v.coq)
                    self.scope[name] = "usize"
                self.flush(lets)
                lets.append("let v_%s := %s in" % (name, v.coq))
                continue
            if not final:
                self.err("statement not understood inside a loop body")
            v = self.expr()
            if self.peek() == ";":
                self.err("expression statement (side effects are outside the supported fragment)")
            return v

    def for_loop(self, lets):
        """`for (idx, (x, y)) in zip(A, B).enumerate() { body }` over two arrays; the body stores into ONE `let mut` array
        (the loop's state) -> `for_zip_enum` of Model/RustLoops.v.  Other `for` loops are outside the fragment."""
        cat = "scalar loop over transmuted arrays"
        shape = "a `for` loop that is not `for (idx, (x, y)) in zip(A, B).enumerate() { .. }`"
        self.eat("for")
        if self.peek() != "(":
            raise Skip(shape, cat)
        e = match_close(self.toks, self.i)
        pt = self.toks[self.i + 1:e]
        ps = texts(pt)
        if not (len(ps) == 7 and ps[1] == "," and ps[2] == "(" and ps[4] == "," and ps[6] == ")"
                and all(pt[k].kind == "ident" for k in (0, 3, 5)) and len({ps[0], ps[3], ps[5]}) == 3):
            raise Skip(shape, cat)
        idx, xa, xb = ps[0], ps[3], ps[5]
        self.i = e + 1
        if self.peek() != "in":
            raise Skip(shape, cat)
        self.i += 1
        j = self.i
        while j < len(self.toks) and self.toks[j].text != "{":
            j = match_close(self.toks, j) + 1 if self.toks[j].text in ("(", "[") else j + 1
        if j >= len(self.toks):
            self.err("`for` without a body")
        it = self.toks[self.i:j]
        s = texts(it)
        k = 4 if s[:4] == ["core", "::", "iter", "::"] else 2 if s[:2] == ["iter", "::"] else 0
        if not (len(s) > k + 1 and s[k] == "zip" and s[k + 1] == "("):
            raise Skip(shape, cat)
        ze = match_close(it, k + 1)
        if texts(it[ze + 1:]) != [".", "enumerate", "(", ")"]:
            raise Skip(shape, cat)
        parts = split_top(it[k + 2:ze])
        if len(parts) != 2:
            self.err("zip takes two arguments")
        arrs = []
        for part in parts:
            p = self.sub(part)
            v = p.expr()
            if p.i != len(part):
                p.err("zip argument not understood")
            if not (v.ty and v.ty.startswith("[")):
                raise Skip("zip over a value that is not an array of known type", cat)
            arrs.append(v)
        be = match_close(self.toks, j)
        body = self.toks[j + 1:be]
        self.i = be + 1
        stores = []
        for q in range(len(body) - 1):
            if body[q].kind == "ident" and body[q + 1].text == "[" and (q == 0 or body[q - 1].text in (";", "}")):
                ce = match_close(body, q + 1)
                if ce + 1 < len(body) and body[ce + 1].text == "=" and body[q].text not in stores:
                    stores.append(body[q].text)
        if len(stores) != 1:
            raise Skip("a loop body that does not store into exactly one array", cat)
        st = stores[0]
        if self.loop_state is not None:
            raise Skip("nested loops", cat)
        if st not in self.mutable or not (self.scope.get(st) or "").startswith("["):
            self.err("the loop stores into `%s`, which is not a `let mut` array of known type" % st)
        self.flush(lets)
        p = Parser(self.tr, body, self.env, self.family, self.where, self.scope, self.self_struct)
        p.loop_state = st               # p.mutable is empty: an assignment to an outer local is not understood (an error)
        p.scope[idx] = "usize"
        p.scope[xa] = array_type(arrs[0].ty)[0]
        p.scope[xb] = array_type(arrs[1].ty)[0]
        blets = []
        p.statements(blets, final=False)
        bv = p.close(blets, Val("v_" + st, self.scope[st]))
        btxt = bv.coq if bv.opt else "\n  ".join(blets + ["Some v_" + st])
        btxt = btxt.replace("\n", "\n    ")
        lets.append("obind (for_zip_enum (fun v_%s v_%s v_%s v_%s =>\n      %s)\n    0 %s %s v_%s) (fun v_%s =>"
                    % (idx, xa, xb, st, btxt, arrs[0].coq, arrs[1].coq, st, st))

    def type_text(self, stop):
        depth, out = 0, []
        while self.peek() is not None:
            x = self.peek()
            if depth == 0 and x in stop:
                break
            if x in ("<", "(", "["):
                depth += 1
            elif x in (">", ")", "]"):
                if depth == 0:
                    break
                depth -= 1
            out.append(x)
            self.i += 1
        if not out:
            self.err("type expected")
        return "".join(out)

    # -- expressions --
    def binop_at(self):
        x = self.peek()
        if x == "<" and self.peek(1) == "<" and self.toks[self.i].line == self.toks[self.i + 1].line:
            return "<<", 2
        if x == ">" and self.peek(1) == ">":
            return ">>", 2
        if x == "<<":
            return "<<", 1
        if x in PREC:
            return x, 1
        return None, 0

    def expr(self, minprec=0):
        lhs = self.cast_expr()
        while True:
            op, n = self.binop_at()
            if op is None or PREC[op] < minprec:
                return lhs
            self.i += n
            rhs = self.expr(PREC[op] + 1)
            for v in (lhs, rhs):
                if v.ty is not None and v.ty not in INT_TYS and v.ty != "{integer}":
                    self.err("operator `%s` on a value of type %s" % (op, v.ty))
            fn = dict(BINOPS)[op]
            ty = lhs.ty if lhs.ty not in (None, "{integer}") else rhs.ty
            lhs = Val("(%s %s %s)" % (fn, lhs.coq, rhs.coq), ty)

    def cast_expr(self):
        v = self.postfix()
        while self.peek() == "as":
            self.i += 1
            t = self.env.resolve(self.type_text(stop=(")", ",", ";", "}", "as", "|", "&", "^", "+", "-", "*", "/", "<", ">", "<<")))
            v = cast_to(v, t, self.where)
        return v

    def postfix(self):
        v = self.atom()
        while self.peek() in (".", "["):
            if self.peek() == "[":
                e = match_close(self.toks, self.i)
                inner = self.toks[self.i + 1:e]
                if not (v.ty and v.ty.startswith("[")):
                    self.err("indexing a value that is not an array")
                k = self.const_eval(inner)
                if k is None:
                    raise Skip("array indexed by a value that is not a compile-time constant", "scalar loop over transmuted arrays")
                ety, n = array_type(v.ty)
                if k >= n:
                    self.err("index %d out of bounds of %s" % (k, v.ty))
                v = Val(index_expr(v.coq, ety, k), ety)
                self.i = e + 1
                continue
            t = self.toks[self.i + 1] if self.i + 1 < len(self.toks) else None
            if t is None or t.kind != "ident":
                self.err("field access not understood")
            if self.peek(2) == "(":
                # scalar method call
                self.i += 2
                args = self.args()
                v = self.scalar_method(v, t.text, args)
                continue
            if t.text not in DENSE_FIELDS:
                self.err("field `%s` is not a DenseLane field" % t.text)
            inner = None
            if v.ty:
                m = re.match(r"^DenseLane<(.+)>$", v.ty)
                inner = m.group(1) if m else None
            v = Val("(d%s %s)" % (t.text, v.coq), inner)
            self.i += 2
        return v

    def scalar_method(self, recv, name, args):
        """`a.wrapping_add(b)`, `a.max(b)`, ... on a scalar of known type (std semantics = Model/Prim.v)."""
        ty = recv.ty
        if ty in INT_TYS and not ty.startswith("__"):
            sg, w = INT_TYS[ty]
            table = {"wrapping_add": "i_add %d" % w, "wrapping_sub": "i_sub %d" % w, "wrapping_mul": "i_mul %d" % w,
                     "max": "i_max %s %d" % ("true" if sg else "false", w), "min": "i_min %s %d" % ("true" if sg else "false", w)}
        elif ty in FLOAT_TYS:
            table = {"max": "f_max", "min": "f_min"}       # f32::max / f32::min (maxNum / minNum)
        else:
            raise Skip("method call `.%s(..)` on a value whose type the translator does not know" % name,
                       "scalar loop over transmuted arrays")
        if name == "wrapping_div" and ty in INT_TYS:
            if len(args) != 1:
                self.err("`.wrapping_div` takes one argument")
            if args[0].ty not in (ty, "{integer}"):
                self.err("`.wrapping_div` of a %s by a %s" % (ty, args[0].ty))
            # panics on a zero divisor; MIN / -1 wraps (Model/Prim.i_div)
            return self.partial("(i_div %s %d %s %s)" % ("true" if sg else "false", w, recv.coq, args[0].coq), ty)
        if name not in table:
            raise Skip("scalar method `.%s(..)` is outside the supported fragment" % name, "scalar loop over transmuted arrays")
        if len(args) != 1:
            self.err("`.%s` takes one argument" % name)
        return Val("(%s %s %s)" % (table[name], recv.coq, args[0].coq), ty)

    def args(self):
        """`( e, e, .. )` at the cursor -> [Val]."""
        if self.peek() != "(":
            self.err("argument list expected")
        e = match_close(self.toks, self.i)
        parts = split_top(self.toks[self.i + 1:e])
        out = []
        for part in parts:
            p = self.sub(part)
            v = p.expr()
            if p.i != len(part):
                p.err("argument not understood")
            out.append(v)
        self.i = e + 1
        return out

    def generic_args(self):
        """`::<a, b>` at the cursor (after the `::`) -> list of token lists."""
        if self.peek() != "<":
            self.err("`<` expected")
        depth, j = 0, self.i
        while j < len(self.toks):
            x = self.toks[j].text
            if x == "<":
                depth += 1
            elif x == ">":
                depth -= 1
                if depth == 0:
                    break
            elif x in ("(", "{", "["):
                j = match_close(self.toks, j)
            j += 1
        if j >= len(self.toks):
            self.err("unbalanced generic arguments")
        parts = split_top_angle(self.toks[self.i + 1:j])
        self.i = j + 1
        return parts

    def const_generic(self, part):
        """One const-generic argument: a literal, or `{ expr }`."""
        if part and part[0].text == "{":
            e = match_close(part, 0)
            if e != len(part) - 1:
                raise TranslateError("%s: const generic argument not understood: %s" % (self.where, " ".join(texts(part))))
            part = part[1:e]
        p = Parser(self.tr, part, self.env, self.family, self.where, {}, self.self_struct)
        v = p.expr()
        if p.i != len(part):
            p.err("const generic argument not understood")
        if p.pending:
            p.err("const generic argument that may panic")
        return v

    def struct_literal(self, tyname):
        """`{ a: e, .. }` at the cursor."""
        e = match_close(self.toks, self.i)
        fields = {}
        order = []
        for part in split_top(self.toks[self.i + 1:e]):
            if len(part) < 3 or part[0].kind != "ident" or part[1].text != ":":
                self.err("struct literal field not understood")
            p = self.sub(part[2:])
            v = p.expr()
            if p.i != len(part) - 2:
                p.err("struct literal field value not understood")
            if part[0].text in fields:
                self.err("field `%s` given twice" % part[0].text)
            fields[part[0].text] = v
            order.append(part[0].text)
        if sorted(order) != DENSE_FIELDS:
            self.err("%s literal with fields %s (expected a..h)" % (tyname, order))
        self.i = e + 1
        inner = fields["a"].ty
        return Val("(mkDense %s)" % " ".join(fields[f].coq for f in DENSE_FIELDS), ("DenseLane<%s>" % inner) if inner else None)

    def method_call(self, reg, ty, m):
        """a SimdRegister method of (reg, ty); the cursor is at the argument list."""
        tr = self.tr
        if m not in tr.methods:
            self.err("`%s` is not a SimdRegister method" % m)
        args = self.args()
        st, info = tr.translate_method(reg, ty, m)
        if st != "ok":
            imp0 = tr.instance(reg, ty)
            key0 = (reg, None if imp0["generic"] else ty, m)
            raise Skip("calls <%s as SimdRegister<%s>>::%s, which is not translated (%s)" % (reg, ty or "T", m, info),
                       "delegates to an untranslated method: " + tr.cats.get(key0, "other").replace("delegates to an untranslated method: ", ""))
        imp = tr.instance(reg, ty)
        it = imp["fns"].get(m) or tr.defaults.get(m)
        env2 = Env(reg, None if imp["generic"] else ty, imp["regty"], imp["generic"])
        params, ret = tr.parse_sig(it["head"], self.where, env2)
        if len(params) != len(args):
            self.err("%s takes %d arguments, %d given" % (m, len(params), len(args)))
        head = info + (" Mt" if imp["generic"] else "")
        coq = "(%s%s)" % (head, "".join(" " + a.coq for a in args)) if (args or imp["generic"]) else info
        if (reg, None if imp["generic"] else ty, m) in tr.partial:
            return self.partial(coq, ret)           # the callee may panic
        return Val(coq, ret)

    def atom(self):
        t = self.tok()
        if t is None:
            self.err("expression expected")
        x = t.text
        # parenthesised / block
        if x == "(":
            e = match_close(self.toks, self.i)
            p = self.sub(self.toks[self.i + 1:e])
            v = p.expr()
            if p.i != e - self.i - 1:
                p.err("parenthesised expression not understood")
            self.i = e + 1
            return Val(v.coq, v.ty)
        if x == "{":
            e = match_close(self.toks, self.i)
            p = self.sub(self.toks[self.i + 1:e])
            v = p.block_to_end()
            self.i = e + 1
            if v.opt:
                return self.partial("(%s)" % v.coq, v.ty)
            return Val("(%s)" % v.coq, v.ty)
        if x == "[":
            # `[v; N]`: an array of N copies of v
            e = match_close(self.toks, self.i)
            inner = self.toks[self.i + 1:e]
            semi = [q for q, t2 in enumerate(inner) if t2.text == ";"]
            if len(semi) != 1:
                self.err("array expression is not `[value; N]`")
            p = self.sub(inner[:semi[0]])
            v = p.expr()
            if p.i != semi[0]:
                p.err("array element not understood")
            n = self.const_eval(inner[semi[0] + 1:])
            if n is None or n <= 0 or n > 4096:
                self.err("array length is not a small positive constant")
            if v.ty not in SCALAR_SIZE:
                self.err("array literal whose element type is not evident (write `0i8`)")
            self.i = e + 1
            return Val("(repeat %s %d)" % (v.coq, n), "[%s;%d]" % (v.ty, n))
        # literals
        if t.kind == "num":
            self.i += 1
            return self.literal(x)
        # <X as SimdRegister<T>>::m(..)
        if x == "<":
            s = texts(self.toks[self.i:self.i + 10])
            if len(s) == 10 and s[2] == "as" and s[3] == "SimdRegister" and s[4] == "<" and s[6] == ">" and s[7] == ">" and s[8] == "::":
                X, T, m = s[1], s[5], s[9]
                reg = self.env.reg if X == "Self" else X
                if reg not in REGS:
                    self.err("unknown implementor `%s`" % X)
                if T in TYS:
                    ty = T
                elif self.env.generic and T == "T":
                    ty = None
                else:
                    self.err("element type `%s` not understood" % T)
                self.i += 10
                return self.method_call(reg, ty, m)
            self.err("qualified path not understood")
        if t.kind != "ident":
            self.err("expression not understood")
        # paths
        path = [x]
        self.i += 1
        gens = None
        while self.peek() == "::":
            self.i += 1
            if self.peek() == "<":
                g = self.generic_args()
                gens = g if gens is None else gens + g
                continue
            t2 = self.tok()
            if t2 is None or t2.kind != "ident":
                self.err("path segment expected")
            path.append(t2.text)
            self.i += 1
        return self.path_expr(path, gens)

    def literal(self, x):
        m = re.match(r"^(0x[0-9a-fA-F_]+|0b[01_]+|[0-9][0-9_]*)((?:[iu](?:8|16|32|64|128|size))?)$", x)
        if m:
            v = int(m.group(1).replace("_", ""), 0)
            suf = m.group(2) or None
            if suf and suf in INT_TYS and not (0 <= v < 2 ** INT_TYS[suf][1]):
                raise TranslateError("%s: literal %s does not fit its type" % (self.where, x))
            return Val(str(v), suf or "{integer}")
        m = re.match(r"^([0-9][0-9_]*)\.?([0-9_]*)((?:f32|f64)?)$", x)
        if m:
            num = float((m.group(1) + "." + (m.group(2) or "0")).replace("_", ""))
            if num == 0.0:
                return Val("f_zero", m.group(3) or "{float}")
            if num == 1.0:
                return Val("f_one", m.group(3) or "{float}")
        raise TranslateError("%s: literal `%s` is outside the supported fragment (integers, 0.0, 1.0)" % (self.where, x))

    def path_expr(self, path, gens):
        tr = self.tr
        name = path[-1]
        # local / parameter
        if len(path) == 1 and gens is None and self.peek() != "(" and self.peek() != "!" and self.peek() != "{":
            if name in self.scope:
                return Val("v_" + name, self.scope[name])
            self.err("unknown identifier `%s`" % name)
        # macro
        if len(path) == 1 and self.peek() == "!":
            if name != "apply_dense":
                self.err("macro `%s!` is outside the supported fragment" % name)
            self.i += 1
            if self.peek() != "(":
                self.err("macro invocation without parentheses")
            e = match_close(self.toks, self.i)
            args = split_top(self.toks[self.i + 1:e])
            line = self.line()
            self.i = e + 1
            body = expand_macro(tr.apply_dense, name, args, line)
            p = Parser(tr, body, self.env, self.family, self.where + " [apply_dense! expansion]", self.scope, self.self_struct)
            p.pending = self.pending
            v = p.block_to_end() if body and body[0].text != "{" else p.atom_to_end()
            if v.opt:
                return self.partial("(%s)" % v.coq, v.ty)
            return v
        # struct literal
        if self.peek() == "{" and path in (["DenseLane"], ["Self"]) and (path == ["DenseLane"] or self.self_struct == "DenseLane"):
            return self.struct_literal(path[0])
        # Self::m / Reg::m / AutoMath::m / DenseLane::copy / DenseLane::NUM_LANES / mem::size_of / super::f
        if len(path) == 2 and (path[0] == "Self" or path[0] in REGS) and name in tr.methods:
            reg = self.env.reg if path[0] == "Self" else path[0]
            if reg is None:
                self.err("`Self::%s` outside an impl" % name)
            ty = self.env.ty
            if path[0] != "Self":
                # same element type as the enclosing instance (what inference picks; see translate_feat.Scan.body)
                ty = self.env.ty
            return self.method_call(reg, ty, name)
        if len(path) == 2 and path[0] in tf.MATH_TYPES and not self.env.generic:
            # `AutoMath::m(a, b)` at a concrete integer type: the record of Gen/GenMath.v regenerated from math/default.rs
            if path[0] not in ("AutoMath", "StdMath"):
                self.err("Math call through `%s` outside the generic Fallback impl" % path[0])
            if name not in ("add", "sub", "mul", "div", "cmp_min", "cmp_max"):
                self.err("Math method `%s` at a concrete type is outside the supported fragment" % name)
            args = self.args()
            if len(args) != 2:
                self.err("Math::%s takes two arguments" % name)
            tys = sorted({a.ty for a in args if a.ty != "{integer}"}, key=str)
            if len(tys) != 1 or tys[0] not in INT_TYS or tys[0].startswith("__") or tys[0] not in SCALAR_SIZE:
                self.err("Math::%s on operands of types %s (a known integer element type is required)" % (name, tys))
            rec = "std_" + tys[0]
            if (rec, "m_" + name) not in tr.used_math:
                tr.used_math.append((rec, "m_" + name))
            coq = "(m_%s %s %s %s)" % (name, rec, args[0].coq, args[1].coq)
            return self.partial(coq, tys[0]) if name in MATH_PARTIAL else Val(coq, tys[0])
        if len(path) == 2 and path[0] in tf.MATH_TYPES:
            if name in MATH_PARTIAL:
                args = self.args()
                if len(args) != 2:
                    self.err("Math::%s takes two arguments" % name)
                return self.partial("(%s Mt %s %s)" % (MATH_PARTIAL[name], args[0].coq, args[1].coq), "T")
            if name not in MATH_METHODS:
                self.err("unknown Math method `%s`" % name)
            args = self.args()
            return Val("(%s Mt%s)" % (MATH_METHODS[name], "".join(" " + a.coq for a in args)) if args
                       else "(%s Mt)" % MATH_METHODS[name], "T")
        if path[0] == "DenseLane" and len(path) == 2:
            if self.peek() == "(":
                if name not in tr.dense_fns:
                    self.err("unknown function DenseLane::%s" % name)
                args = self.args()
                cname = tr.helper_fn("DenseLane::" + name, tr.dense_fns[name], "%s: DenseLane::%s" % (tf.API_FILE, name),
                                     generic_tvar="A")
                inner = args[0].ty if args else None
                return Val("(%s%s)" % (cname, "".join(" " + a.coq for a in args)), ("DenseLane<%s>" % inner) if inner else None)
            if name in tr.dense_consts:
                cty, ctoks = tr.dense_consts[name]
                p = Parser(tr, ctoks, self.env, self.family, self.where, {}, None)
                v = p.expr()
                if p.pending:
                    p.err("associated constant whose value may panic")
                return Val(v.coq, cty)
            self.err("unknown item DenseLane::%s" % name)
        if len(path) == 2 and path[0] in INT_TYS and not path[0].startswith("__") and name in ("MIN", "MAX") and self.peek() != "(":
            sg, w = INT_TYS[path[0]]
            return Val("(i_%s %s %d)" % (name, "true" if sg else "false", w), path[0])
        if path[-1] == "transmute" and path[:-1] in ([], ["mem"], ["core", "mem"]):
            if not gens or len(gens) != 2:
                raise Skip("mem::transmute without explicit types", "scalar loop over transmuted arrays")
            tgt = self.env.resolve("".join(texts(gens[1])))
            args = self.args()
            if len(args) != 1:
                self.err("transmute takes one argument")
            src = args[0]
            if tgt in VEC_TYS and src.ty and src.ty.startswith("["):
                # array of lanes -> register
                g0 = self.env.resolve("".join(texts(gens[0])))
                if g0 != "_" and g0.replace(" ", "") != src.ty:
                    self.err("transmute::<%s, ..> applied to a value of type %s" % (g0, src.ty))
                ety, n = array_type(src.ty)
                cty, size = VEC_TYS[tgt]
                if ety not in SCALAR_SIZE or SCALAR_SIZE[ety] * n != size:
                    self.err("transmute::<%s, %s>: sizes differ" % (src.ty, tgt))
                if cty == "list Z":
                    if ety in FLOAT_TYS:
                        self.err("transmute of floats to an integer register")
                    return Val("(bytes_of %d %s)" % (INT_TYS[ety][1], src.coq), tgt)
                if cty != "list " + ety:
                    self.err("transmute of %s to %s changes the lane type" % (src.ty, tgt))
                return Val(src.coq, tgt)
            if not tgt.startswith("["):
                raise Skip("mem::transmute to `%s` (only register <-> array of lanes is modelled)" % tgt, "scalar loop over transmuted arrays")
            ety, n = array_type(tgt)
            srcty = src.ty
            g0 = self.env.resolve("".join(texts(gens[0])))
            if g0 != "_" and srcty and g0 != srcty:
                self.err("transmute::<%s, ..> applied to a value of type %s" % (g0, srcty))
            srcty = srcty or (g0 if g0 != "_" else None)
            if srcty not in VEC_TYS:
                self.err("transmute of a value whose register type is unknown")
            cty, size = VEC_TYS[srcty]
            if ety not in SCALAR_SIZE or SCALAR_SIZE[ety] * n != size:
                self.err("transmute::<%s, %s>: sizes differ" % (srcty, tgt))
            if cty == "list Z":
                if ety in FLOAT_TYS:
                    self.err("transmute of an integer register to floats")
                return Val("(lanes_of %d %s)" % (INT_TYS[ety][1], src.coq), tgt)
            if cty != "list " + ety:
                self.err("transmute of %s to %s changes the lane type" % (srcty, tgt))
            return Val(src.coq, tgt)
        if path in (["core", "cmp", "max"], ["core", "cmp", "min"], ["cmp", "max"], ["cmp", "min"]):
            args = self.args()
            if len(args) != 2:
                self.err("cmp::%s takes two arguments" % name)
            ty = args[0].ty if args[0].ty in INT_TYS else args[1].ty
            if ty not in INT_TYS or ty.startswith("__"):
                self.err("core::cmp::%s on a value that is not a known integer type" % name)
            sg, w = INT_TYS[ty]
            return Val("(i_%s %s %d %s %s)" % (name, "true" if sg else "false", w, args[0].coq, args[1].coq), ty)
        if path[-2:] == ["mem", "size_of"] or path == ["size_of"]:
            if not gens or len(gens) != 1:
                self.err("size_of without a type argument")
            t = self.env.resolve("".join(texts(gens[0])))
            self.eat("(")
            self.eat(")")
            if self.env.generic:
                raise Skip("mem::size_of of a generic type", "Fallback: mem::size_of of the generic type")
            if t in VEC_TYS:
                return Val(str(VEC_TYS[t][1]), "usize")
            if t in SCALAR_SIZE:
                return Val(str(SCALAR_SIZE[t]), "usize")
            self.err("size_of::<%s> unknown" % t)
        if path[0] in ("super", "crate") or (len(path) == 1 and name in tr.mod_fns and self.peek() == "("):
            if name not in tr.mod_fns:
                self.err("unknown function `%s`" % "::".join(path))
            args = self.args()
            cname = tr.helper_fn(name, tr.mod_fns[name], "%s: %s" % (tf.MOD_FILE, name))
            return Val("(%s%s)" % (cname, "".join(" " + a.coq for a in args)), tr.helper_ret.get(cname))
        # intrinsic
        if len(path) == 1 and (tf.X86_LIKE.match(name) or tf.NEON_LIKE.match(name)) and self.peek() == "(":
            return self.intrinsic(name, gens)
        self.err("path `%s` not understood" % "::".join(path))

    def atom_to_end(self):
        v = self.atom()
        if self.i != len(self.toks):
            self.err("trailing tokens")
        return v

    def intrinsic(self, name, gens):
        tr = self.tr
        if self.family is None:
            self.err("core::arch intrinsic `%s` in architecture-independent code" % name)
        sigs = stdarch_sigs(tr.root, self.family)
        if name not in sigs:
            self.err("`%s` is not defined by the installed stdarch (%s)" % (name, self.family))
        ngen, ptys, ret = sigs[name]
        cname = name.lstrip("_")
        gvals = [self.const_generic(g) for g in (gens or [])]
        if len(gvals) != ngen:
            self.err("`%s` takes %d const generic arguments, %d given" % (name, ngen, len(gvals)))
        args = self.args()
        if len(args) != len(ptys):
            self.err("`%s` takes %d arguments, %d given" % (name, len(ptys), len(args)))
        if cname not in tr.known:
            raise TranslateError("%s: line %d: intrinsic `%s` has no semantics in coq/Model/Intrinsics.v (add `Definition %s`)"
                                 % (self.where, self.line(), name, cname))
        if cname not in tr.used_intr:
            tr.used_intr.append(cname)
        allv = gvals + args
        coq = "(%s%s)" % (cname, "".join(" " + a.coq for a in allv)) if allv else cname
        return Val(coq, ret)


def split_top_angle(toks):
    """split on commas at depth 0 where `<`..`>` also nest (const-generic `{..}` blocks are bracket-matched)."""
    out, cur, depth = [], [], 0
    for t in toks:
        x = t.text
        if x in ("(", "[", "{", "<"):
            depth += 1
        elif x in (")", "]", "}", ">"):
            depth -= 1
        if depth == 0 and x == ",":
            out.append(cur)
            cur = []
        else:
            cur.append(t)
    if cur:
        out.append(cur)
    return out


# ----------------------------------------------------------------------------------------------
# driver
# ----------------------------------------------------------------------------------------------

def cstr(s):
    return '"' + s.replace('"', '""') + '"'


def gen_regs(facts, write_if_changed, GEN, REPO):
    tr = Translator(REPO)
    pairs = []          # (reg, ty|None) in source order
    for rel, family in tf.IMPL_FILES:
        for (reg, ty), imp in tr.impls.items():
            if imp["file"] == rel:
                pairs.append((reg, ty))
    triples = []
    for reg, ty in pairs:
        for m in tr.methods:
            tr.translate_method(reg, ty, m)
            triples.append((reg, ty, m))

    ok = [k for k in tr.order if k in set(triples)]
    untranslated = [(k, tr.done[k][1]) for k in triples if tr.done[k][0] != "ok"]

    def shape_of(k):
        if k in tr.partial:
            return (FB_OPT_SHAPE if k[1] is None else OPT_SHAPE)[SHAPE[k[2]]]
        return FB_SHAPE[SHAPE[k[2]]] if k[1] is None else SHAPE[k[2]]

    def entry(k):
        reg, ty, m = k
        shape = shape_of(k)
        name = tr.done[k][1]
        if ty is None:
            return "(%s, %s (@%s))" % (METH[m], shape, name)
        wrap = "GF32" if ty == "f32" else "GF64" if ty == "f64" else "GI"
        return "(%s, %s, %s, %s (%s %s))" % (reg, TYS[ty], METH[m], wrap, shape, name)

    L = []
    L.append("(* GENERATED by tools/translate_regs.py (step \"regs\") from cfavml/src/danger/impl_*.rs, core_simd_api.rs and\n"
             "   danger/mod.rs — do not edit.  One definition per (register, element type, SimdRegister method) whose body is\n"
             "   straight-line code, over the intrinsic vocabulary of Model/Intrinsics.v; `v_x` is the Rust local / parameter `x`.\n"
             "   Integer vectors are byte lists, integer scalars bit patterns, float vectors lane lists. *)")
    L.append("From Coq Require Import ZArith List String.")
    L.append("From CF Require Import Model.Tables Model.Prim Model.SimdApi Model.Intrinsics Model.RustLoops Model.RegTable.")
    if tr.used_math:
        L.append("From CF Require Import Gen.GenMath.")
    L.append("Import ListNotations.\nLocal Open Scope Z_scope.\n")
    if tr.used_math:
        L.append("(* `AutoMath::m` at a concrete element type is read as StdMath's (Gen/GenMath.v, regenerated from math/default.rs);\n"
                 "   AutoMath = FastMath under the nightly feature: the two records have the same field, checked here *)")
        for rec, fld in tr.used_math:
            L.append("Definition gen_automath_%s_%s_any_variant : %s %s = %s fast_%s := eq_refl."
                     % (rec[4:], fld[2:], fld, rec, fld, rec[4:]))
        L.append("")
    for h in tr.helper_order:
        L.append(tr.helpers[h])
    for k in tr.order:
        L.append(tr.done[k][2])
    ALL_TYS = ["f32", "f64", "i8", "i16", "i32", "i64", "u8", "u16", "u32", "u64"]
    XREGS = [r for r in REGS if r != "Fallback"]
    by_pair = {}
    for k in ok:
        by_pair.setdefault((k[0], k[1]), []).append(k)
    L.append("(* ---- what was translated: one table per (register, element type) ---- *)")
    ks = by_pair.get(("Fallback", None), [])
    L.append("Definition gen_fallback_table : list (rmeth * fb_def) := [\n  %s\n]." % ";\n  ".join(entry(k) for k in ks)
             if ks else "Definition gen_fallback_table : list (rmeth * fb_def) := [].")
    for reg in XREGS:
        for ty in ALL_TYS:
            ks = by_pair.get((reg, ty), [])
            L.append("Definition gen_reg_table_%s_%s : list gen_entry := [\n  %s\n]." % (reg, ty, ";\n  ".join(entry(k) for k in ks))
                     if ks else "Definition gen_reg_table_%s_%s : list gen_entry := []." % (reg, ty))
    L.append("Definition gen_reg_table : list gen_entry :=\n  %s." % "\n  ++ ".join(
        "gen_reg_table_%s_%s" % (r, t) for r in XREGS for t in ALL_TYS))
    L.append("\nOpen Scope string_scope.")
    L.append("Definition gen_reg_methods : list (string * string * string) := [\n  %s\n]." % ";\n  ".join(
        "(%s, %s, %s)" % (cstr(k[0]), cstr(k[1] or "T"), cstr(k[2]))
        for k in by_pair.get(("Fallback", None), []) + [k for r in XREGS for t in ALL_TYS for k in by_pair.get((r, t), [])]))
    L.append("(* ---- what was NOT translated, and why (these stay tied by correspondence (B) only) ---- *)")
    L.append("Definition gen_reg_untranslated : list (string * string * string * string) := [\n  %s\n]." % ";\n  ".join(
        "(%s, %s, %s, %s)" % (cstr(k[0]), cstr(k[1] or "T"), cstr(k[2]), cstr(r)) for k, r in untranslated))
    L.append("Definition gen_reg_counts : Z * Z := (%d, %d).   (* (triples, translated) *)" % (len(triples), len(ok)))
    names = list(tr.helper_order) + [tr.done[k][1] for k in tr.order]
    L.append("\n(* unfold every generated definition and every intrinsic NAME down to the families of Model/Intrinsics.v *)")
    L.append("Ltac unfold_gen :=\n  cbv beta iota zeta delta [\n    da db dc dd de df dg dh\n    %s\n    %s ]." % (
        "\n    ".join(" ".join(names[i:i + 6]) for i in range(0, len(names), 6)),
        "\n    ".join(" ".join(tr.used_intr[i:i + 8]) for i in range(0, len(tr.used_intr), 8))))
    recs = []
    for rec, fld in tr.used_math:
        for x in (fld, rec):
            if x not in recs:
                recs.append(x)
    L.append("(* `AutoMath::m` at a concrete element type: the field of the regenerated record *)")
    L.append("Ltac unfold_gen_math := %s." % ("cbv beta iota delta [ %s ]" % " ".join(recs) if recs else "idtac"))
    write_if_changed(os.path.join(GEN, "GenRegs.v"), "\n".join(L) + "\n")

    # ---- goals: one lemma per entry, one file per (register, element type) ----
    def goals_file(title, ks, table, goal, fname):
        G = []
        G.append("(* GENERATED by tools/translate_regs.py — do not edit.  One refinement lemma per translated method of %s:\n"
                 "   statement schema Proofs/GenRegsSpec.v ([reg_goal] / [fb_goal]), tactic Proofs/GenRegsLemmas.v. *)" % title)
        G.append("From Coq Require Import ZArith List.")
        G.append("From CF Require Import Model.Tables Model.Prim Model.SimdApi Model.Regs Model.Intrinsics Model.RegTable Gen.GenRegs.")
        G.append("From CF Require Import Proofs.GenRegsSpec Proofs.GenRegsLemmas.")
        G.append("Import ListNotations.\nLtac unfold_gen_hook ::= unfold_gen.%s\n"
                 % ("" if goal == "fb_entry_goal" else "\nLtac unfold_math_hook ::= unfold_gen_math."))
        names = []
        for k in ks:
            reg, ty, m = k
            name = tr.done[k][1]
            shape = shape_of(k)
            if ty is None:
                stmt = "fb_goal %s (%s (@%s))" % (METH[m], shape, name)
            else:
                wrap = "GF32" if ty == "f32" else "GF64" if ty == "f64" else "GI"
                stmt = "reg_goal %s %s %s (%s (%s %s))" % (reg, TYS[ty], METH[m], wrap, shape, name)
            G.append("Lemma %s_ok : %s.\nProof. solve_method. Qed." % (name, stmt))
            names.append((entry(k), name + "_ok"))
        ety = "(rmeth * fb_def)" if goal == "fb_entry_goal" else "gen_entry"
        body = "".join("(@Forall_cons %s %s %s _ %s\n   " % (ety, goal, e, n) for e, n in names) + "(@Forall_nil %s %s)" % (ety, goal) + ")" * len(names)
        G.append("\nLemma %s_ok : Forall %s %s.\nProof.\n  exact %s.\nQed." % (table, goal, table, body))
        write_if_changed(os.path.join(GEN, fname), "\n".join(G) + "\n")

    goals_file("Fallback", by_pair.get(("Fallback", None), []), "gen_fallback_table", "fb_entry_goal", "GenRegsGoals_Fallback.v")
    for reg in XREGS:
        for ty in ALL_TYS:
            goals_file("<%s as SimdRegister<%s>>" % (reg, ty), by_pair.get((reg, ty), []),
                       "gen_reg_table_%s_%s" % (reg, ty), "entry_goal", "GenRegsGoals_%s_%s.v" % (reg, ty))
    A = ["(* GENERATED by tools/translate_regs.py — do not edit.  The per-(register, type) refinement lemmas, assembled. *)",
         "From Coq Require Import List.",
         "From CF Require Import Model.RegTable Gen.GenRegs Proofs.GenRegsSpec.",
         "From CF Require Import Gen.GenRegsGoals_Fallback."]
    for reg in XREGS:
        A.append("From CF Require Import %s." % " ".join("Gen.GenRegsGoals_%s_%s" % (reg, ty) for ty in ALL_TYS))
    A.append("\nLemma gen_reg_table_ok : Forall entry_goal gen_reg_table.\nProof.\n  unfold gen_reg_table.")
    A.append("  repeat (apply Forall_app; split).")
    for reg in XREGS:
        for ty in ALL_TYS:
            A.append("  - exact gen_reg_table_%s_%s_ok." % (reg, ty))
    A.append("Qed.")
    write_if_changed(os.path.join(GEN, "GenRegsGoals.v"), "\n".join(A) + "\n")

    facts["regs"] = {
        "triples": len(triples), "translated": len(ok),
        "translated_list": ["%s %s %s" % (k[0], k[1] or "T", k[2]) for k in ok],
        "untranslated": [{"reg": k[0], "ty": k[1] or "T", "method": k[2], "reason": r, "category": tr.cats.get(k, "other")}
                         for k, r in untranslated],
        "failed": [{"reg": k[0], "ty": k[1] or "T", "method": k[2], "error": e} for k, e in tr.failed],
        "helpers": list(tr.helper_order),
        "may_panic": ["%s %s %s" % (k[0], k[1] or "T", k[2]) for k in ok if k in tr.partial],
    }
    if tr.failed:
        raise TranslateError("; ".join("<%s as SimdRegister<%s>>::%s: %s" % (k[0], k[1] or "T", k[2], e) for k, e in tr.failed[:6])
                             + (" (+%d more)" % (len(tr.failed) - 6) if len(tr.failed) > 6 else ""))


def steps(facts, write_if_changed, GEN, REPO):
    return [("regs", lambda: gen_regs(facts, write_if_changed, GEN, REPO))]


if __name__ == "__main__":
    import json
    facts, out = {}, {}

    def w(path, content):
        out[path] = content
    outdir = None
    for a in sys.argv[1:]:
        if a.startswith("--out="):
            outdir = a[6:]          # write the generated files there (a private copy of coq/Gen, for self-tests)
    if outdir:
        def w(path, content):       # noqa: F811
            old = open(path).read() if os.path.exists(path) else None
            if old != content:
                with open(path, "w") as f:
                    f.write(content)
            out[path] = content
    try:
        gen_regs(facts, w, outdir or "/tmp/genregs_preview", os.environ.get("VERIF_REPO", "/repo"))
    except TranslateError as ex:
        print("TRANSLATE-ERROR", ex)
    r = facts.get("regs", {})
    print(json.dumps({k: (v if not isinstance(v, list) else len(v)) for k, v in r.items()}, indent=1))
    if "-v" in sys.argv:
        for p, c in out.items():
            print("=====", p)
            print(c)
