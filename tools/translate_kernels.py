#!/usr/bin/env python3
"""translate_kernels.py — regenerate coq/Gen/GenKernels.v from cfavml/src/danger/op_*.rs (step "kernels").

For every non-test `fn` of the op_*.rs files (the 19 `generic_*` kernels and the helper `cosine`) the Rust body is
parsed (statement forms below) and rendered STATEMENT BY STATEMENT into the state/error monad `M T _` of Base/Mem.v,
over the record form `R : SimdOps T`, `Mth : MathOps T` of the SimdRegister / Math traits (Model/SimdApi.v):

    let [mut] x = pure;            let x := pure in
    let [mut] x = effect;          x <- effect ;;                (loads, fallible division, calls of other kernels)
    x = e;   (outside a loop)      let x := e in                 (straight-line code: rebinding is assignment)
    while i < B { body; i += E; }  '(i, st) <- while_lt fuel i B E (fun i st => body ;; ret st) st ;;
                                   st = the tuple of the variables ASSIGNED in the body (declared outside it), in order of
                                   first assignment; fuel = S dims.  A loop that assigns nothing carries the unit token `u`
                                   (initially tt; it is also what a function without tail expression returns), and
                                   `u <- c ;; ret u` is written `c`.
    R::load_dense(p.add(e))        load_dense R <slice of p> e        R::load(p.add(e))   load <slice> e (lanes R)
    R::write_dense(p.add(e), x)    write_dense R e x  (p must point into `result`)        R::write -> store e x
    *s.get_unchecked(e)            read1 (m_zero Mth) <slice> e       *result.get_unchecked_mut(e) = x  -> write1 e x
    R::op(..) / M::op(..)          r_op R .. / m_op Mth ..  (table R_METHODS / M_METHODS; div is `lift_opt (.. )`)
    if c { .. } else { .. }        (tail position only)  if c then .. else ..
    debug_assert*!(..)             IGNORED (they are modelled at the safe/export layer, Model/Safe.v, Model/Exports.v)

The translator never recognises "a three-phase kernel": bounds, increments, start index, the order and the slice of every
load and store, the accumulator that is updated — all of it is what the source says.  Anything outside the forms above
(tuple patterns, `if` in the middle of a block, pointer `.sub`, casts, `return`, nested loops, an increment that is not
the last statement of a loop body, ...) makes THAT function untranslatable: nothing is emitted for it, its name goes into
`gen_kernels_untranslated` with the reason in a comment, and the step reports a TranslateError.

CLI (used for mutation tests):  translate_kernels.py [--repo DIR] [--out FILE]
"""
import glob
import json
import os
import re
import sys

sys.path.insert(0, os.path.dirname(os.path.abspath(__file__)))
from rustlex import TranslateError, tokenize, match_close  # noqa: E402

SRC_GLOB = "cfavml/src/danger/op_*.rs"


class Untranslatable(Exception):
    pass


def bad(tok_or_line, msg):
    line = tok_or_line.line if hasattr(tok_or_line, "line") else tok_or_line
    raise Untranslatable("line %s: %s" % (line, msg))


# ----------------------------------------------------------------------------------------------
# parser (statements and expressions that occur in the kernels; everything else is rejected)
# ----------------------------------------------------------------------------------------------

BINPREC = {"||": 1, "&&": 2, "==": 3, "!=": 3, "<": 3, ">": 3, "<=": 3, ">=": 3, "+": 5, "-": 5, "*": 6, "/": 6, "%": 6}
IGNORED_MACROS = ("debug_assert", "debug_assert_eq", "debug_assert_ne")
STMT_KEYWORDS = ("return", "for", "loop", "match", "unsafe", "break", "continue", "fn", "struct", "use", "const",
                 "static", "impl")


class Parser:
    def __init__(self, toks):
        self.t = toks
        self.p = 0

    def peek(self, k=0):
        return self.t[self.p + k].text if self.p + k < len(self.t) else None

    def tok(self):
        if self.p >= len(self.t):
            raise Untranslatable("unexpected end of function body")
        return self.t[self.p]

    def eat(self, x=None):
        t = self.tok()
        if x is not None and t.text != x:
            bad(t, "expected %r, found %r" % (x, t.text))
        self.p += 1
        return t

    # -- blocks and statements ----------------------------------------------------------------
    def block_body(self):
        """statements up to the end of the token list; returns (stmts, tail_expr or None)"""
        stmts, tail = [], None
        while self.p < len(self.t):
            t = self.tok()
            if tail is not None:
                bad(t, "statement after a tail expression")
            if t.text == ";":
                self.eat()
                continue
            if t.text == "#":
                bad(t, "attribute inside a function body")
            if t.kind == "ident" and self.peek(1) == "!":
                if t.text in IGNORED_MACROS:
                    self.eat()
                    self.eat("!")
                    if self.peek() not in ("(", "[", "{"):
                        bad(t, "malformed macro invocation")
                    self.p = match_close(self.t, self.p) + 1
                    if self.peek() == ";":
                        self.eat()
                    stmts.append(("ignored", t.text, t.line))
                    continue
                bad(t, "macro %s! is not understood (only debug_assert*! are known, and ignored)" % t.text)
            if t.text in STMT_KEYWORDS:
                bad(t, "`%s` is not understood" % t.text)
            if t.text == "let":
                stmts.append(self.let_stmt())
                continue
            if t.text == "while":
                self.eat()
                cond = self.expr(no_struct=True)
                body = self.braced_block()
                stmts.append(("while", cond, body, t.line))
                continue
            if t.text == "{":
                bad(t, "nested block is not understood")
            e = self.expr()
            nxt = self.peek()
            if nxt in ("=", "+=", "-=", "*=", "/=", "%="):
                op = self.eat().text
                rhs = self.expr()
                self.eat(";")
                stmts.append(("assign", e, op, rhs, t.line))
            elif nxt == ";":
                self.eat()
                stmts.append(("expr", e, t.line))
            elif nxt is None:
                tail = e
            elif e[0] == "if":
                stmts.append(("expr", e, t.line))        # `if .. { }` used as a statement (no `;` needed)
            else:
                bad(self.tok(), "unexpected token %r after expression" % nxt)
        return stmts, tail

    def braced_block(self):
        t = self.tok()
        if t.text != "{":
            bad(t, "expected a block, found %r" % t.text)
        e = match_close(self.t, self.p)
        sub = Parser(self.t[self.p + 1:e])
        blk = sub.block_body()
        self.p = e + 1
        return blk

    def let_stmt(self):
        t = self.eat("let")
        mut = False
        if self.peek() == "mut":
            self.eat()
            mut = True
        n = self.tok()
        if n.kind != "ident" or n.text in ("ref", "_"):
            bad(n, "`let` pattern is not a single identifier (found %r)" % n.text)
        self.eat()
        if self.peek() == ":":
            bad(n, "`let` with a type annotation is not understood")
        if self.peek() != "=":
            bad(n, "`let` without initialiser is not understood")
        self.eat("=")
        e = self.expr()
        self.eat(";")
        return ("let", n.text, mut, e, t.line)

    # -- expressions --------------------------------------------------------------------------
    def expr(self, minprec=1, no_struct=False):
        lhs = self.unary()
        while True:
            op = self.peek()
            if op == "as":
                bad(self.tok(), "`as` cast is not understood")
            if op in ("..", "..=", "?", "<<", ">>", "&", "|", "^"):
                bad(self.tok(), "operator %r is not understood" % op)
            if op not in BINPREC or BINPREC[op] < minprec:
                return lhs
            t = self.eat()
            rhs = self.expr(BINPREC[op] + 1)
            lhs = ("binop", op, lhs, rhs, t.line)

    def unary(self):
        t = self.tok()
        if t.text in ("*", "!", "-"):
            self.eat()
            return ("unop", t.text, self.unary(), t.line)
        if t.text == "&":
            bad(t, "reference-taking `&` is not understood")
        return self.postfix()

    def postfix(self):
        e = self.primary()
        while True:
            nx = self.peek()
            if nx == "(":
                args = self.args()
                e = ("call", e, args, self.t[self.p - 1].line)
            elif nx == ".":
                self.eat()
                n = self.tok()
                if n.kind == "num":
                    bad(n, "tuple field access is not understood")
                if n.kind != "ident":
                    bad(n, "expected a method or field name")
                self.eat()
                if self.peek() == "::":
                    bad(n, "method turbofish is not understood")
                if self.peek() == "(":
                    args = self.args()
                    e = ("mcall", e, n.text, args, n.line)
                else:
                    e = ("field", e, n.text, n.line)
            elif nx == "[":
                bad(self.tok(), "indexing is not understood")
            else:
                return e

    def args(self):
        self.eat("(")
        out = []
        while self.peek() != ")":
            out.append(self.expr())
            if self.peek() == ",":
                self.eat()
            elif self.peek() != ")":
                bad(self.tok(), "expected , or ) in argument list")
        self.eat(")")
        return out

    def primary(self):
        t = self.tok()
        if t.kind == "num":
            self.eat()
            m = re.match(r"^([0-9][0-9_]*)(usize)?$", t.text)
            if not m:
                bad(t, "literal %r is not a plain usize literal" % t.text)
            v = int(m.group(1).replace("_", ""))
            if v > 4096:
                bad(t, "integer literal %d too large for a nat literal" % v)
            return ("int", v, t.line)
        if t.text == "(":
            self.eat()
            if self.peek() == ")":
                bad(t, "unit / tuple expression is not understood")
            e = self.expr()
            if self.peek() == ",":
                bad(t, "tuple expression is not understood")
            self.eat(")")
            return e
        if t.text == "if":
            return self.if_expr()
        if t.kind == "ident":
            if t.text in STMT_KEYWORDS or t.text in ("while", "let", "mut", "move", "as", "in", "true", "false"):
                bad(t, "`%s` is not understood here" % t.text)
            segs, turbofish = [self.eat().text], None
            while self.peek() == "::":
                self.eat()
                if self.peek() == "<":
                    turbofish = self.turbofish()
                    break
                n = self.tok()
                if n.kind != "ident":
                    bad(n, "malformed path")
                segs.append(self.eat().text)
            if self.peek() == "::":
                bad(self.tok(), "path continues after a turbofish")
            if self.peek() == "!":
                bad(t, "macro %s! inside an expression is not understood" % segs[-1])
            if self.peek() == "{" and False:
                pass
            if len(segs) == 1 and turbofish is None:
                return ("var", segs[0], t.line)
            return ("path", segs, turbofish, t.line)
        bad(t, "unexpected token %r in expression" % t.text)

    def turbofish(self):
        t = self.eat("<")
        depth, out = 1, []
        while depth:
            x = self.eat()
            if x.text == "<":
                depth += 1
            elif x.text == ">":
                depth -= 1
                if depth == 0:
                    break
            elif x.text == ">>":
                bad(x, "nested generic arguments in a turbofish are not understood")
            out.append(x.text)
        return out

    def if_expr(self):
        t = self.eat("if")
        if self.peek() == "let":
            bad(t, "`if let` is not understood")
        cond = self.expr(no_struct=True)
        then = self.braced_block()
        els = None
        if self.peek() == "else":
            self.eat()
            if self.peek() == "if":
                e2 = self.if_expr()
                els = ([], e2)
            else:
                els = self.braced_block()
        return ("if", cond, then, els, t.line)


def find_fns(toks):
    """Top-level fn items of a file (recursing into nothing: a `mod` is skipped; `#[cfg(test)]` items are skipped).
    Returns [{name, params:[(name, type_text)], ret:type_text or None, body:tokens, line, test:bool}]."""
    fns = []
    i, n = 0, len(toks)
    attrs = []
    while i < n:
        t = toks[i]
        if t.text == "#" and i + 1 < n and toks[i + 1].text in ("[", "!"):
            j = i + 1 + (1 if toks[i + 1].text == "!" else 0)
            e = match_close(toks, j)
            attrs.append(" ".join(x.text for x in toks[j + 1:e]))
            i = e + 1
            continue
        is_test = any(re.match(r"cfg \( .*\btest\b", a) for a in attrs)
        # qualifiers
        j = i
        while j < n and toks[j].text in ("pub", "unsafe", "const", "extern", "async"):
            j += 1
            if toks[j - 1].text == "pub" and j < n and toks[j].text == "(":
                j = match_close(toks, j) + 1
        if j < n and toks[j].text == "fn":
            name = toks[j + 1]
            k = j + 2
            if toks[k].text == "<":
                depth = 0
                while True:
                    x = toks[k].text
                    if x == "<":
                        depth += 1
                    elif x == ">":
                        depth -= 1
                    elif x == ">>":
                        depth -= 2
                    k += 1
                    if depth <= 0:
                        break
            if toks[k].text != "(":
                raise TranslateError("fn %s: cannot find the parameter list (line %d)" % (name.text, name.line))
            pe = match_close(toks, k)
            params = []
            cur, depth = [], 0
            for x in toks[k + 1:pe] + [None]:
                if x is None or (x.text == "," and depth == 0):
                    if cur:
                        if len(cur) < 3 or cur[1].text != ":":
                            raise TranslateError("fn %s: parameter not of the form name: type" % name.text)
                        params.append((cur[0].text, " ".join(y.text for y in cur[2:])))
                    cur = []
                    continue
                if x.text in ("(", "[", "<"):
                    depth += 1
                elif x.text in (")", "]", ">"):
                    depth -= 1
                cur.append(x)
            k = pe + 1
            ret = None
            if toks[k].text == "->":
                r0 = k + 1
                while toks[k].text not in ("where", "{"):
                    k += 1
                ret = " ".join(y.text for y in toks[r0:k])
            while toks[k].text != "{":           # where clause (generic bounds): ignored
                k += 1
            be = match_close(toks, k)
            fns.append({"name": name.text, "params": params, "ret": ret, "body": toks[k + 1:be], "line": name.line,
                        "test": is_test, "unsafe": any(toks[q].text == "unsafe" for q in range(i, j))})
            i = be + 1
            attrs = []
            continue
        # any other item: skip to `;` or over a balanced `{ }`
        while j < n:
            if toks[j].text == ";":
                j += 1
                break
            if toks[j].text == "{":
                j = match_close(toks, j) + 1
                break
            if toks[j].text in ("(", "["):
                j = match_close(toks, j) + 1
                continue
            j += 1
        i = j
        attrs = []
    return fns


# ----------------------------------------------------------------------------------------------
# the Rust -> Coq vocabulary (TRUSTED: this table is the meaning given to the trait methods)
# ----------------------------------------------------------------------------------------------
# kind: "pure" (total function), "opt" (fallible: option, lifted with lift_opt), arity, Coq head
R_METHODS = {
    "elements_per_dense": ("nat", 0, "elements_per_dense R"), "elements_per_lane": ("nat", 0, "lanes R"),
    "zeroed": ("pure", 0, "r_zeroed R"), "zeroed_dense": ("pure", 0, "zeroed_dense R"),
    "filled": ("pure", 1, "r_filled R"), "filled_dense": ("pure", 1, "filled_dense R"),
    "add": ("pure", 2, "r_add R"), "sub": ("pure", 2, "r_sub R"), "mul": ("pure", 2, "r_mul R"),
    "div": ("opt", 2, "r_div R"), "fmadd": ("pure", 3, "r_fmadd R"),
    "max": ("pure", 2, "r_max R"), "min": ("pure", 2, "r_min R"),
    "add_dense": ("pure", 2, "r_add_dense R"), "sub_dense": ("pure", 2, "r_sub_dense R"),
    "mul_dense": ("pure", 2, "r_mul_dense R"), "div_dense": ("opt", 2, "r_div_dense R"),
    "fmadd_dense": ("pure", 3, "r_fmadd_dense R"),
    "max_dense": ("pure", 2, "r_max_dense R"), "min_dense": ("pure", 2, "r_min_dense R"),
    "sum_to_value": ("pure", 1, "r_sum_to_value R"), "max_to_value": ("pure", 1, "r_max_to_value R"),
    "min_to_value": ("pure", 1, "r_min_to_value R"),
    "sum_to_register": ("pure", 1, "sum_to_register R"), "max_to_register": ("pure", 1, "max_to_register R"),
    "min_to_register": ("pure", 1, "min_to_register R"),
}
M_METHODS = {
    "zero": ("pure", 0, "m_zero Mth"), "one": ("pure", 0, "m_one Mth"), "max": ("pure", 0, "m_max Mth"),
    "min": ("pure", 0, "m_min Mth"), "sqrt": ("pure", 1, "m_sqrt Mth"), "abs": ("pure", 1, "m_abs Mth"),
    "cmp_eq": ("bool", 2, "m_cmp_eq Mth"), "cmp_min": ("pure", 2, "m_cmp_min Mth"),
    "cmp_max": ("pure", 2, "m_cmp_max Mth"), "add": ("pure", 2, "m_add Mth"), "sub": ("pure", 2, "m_sub Mth"),
    "mul": ("pure", 2, "m_mul Mth"), "div": ("opt", 2, "m_div Mth"),
}
DENSE_FIELDS = {"a": 0, "b": 1, "c": 2, "d": 3, "e": 4, "f": 5, "g": 6, "h": 7}
SLICES = {"a": "SA", "b": "SB", "result": "SR"}

COQ_RESERVED = set("""as at cofix else end exists exists2 fix for forall fun if IF in let match mod return Prop Set Type
    then using where with by struct Definition Lemma Section End Variable Context
    T R Mth u fuel tt ret bind panic lift_opt load load_gen store store_gen read1 write1 while_lt load_dense write_dense
    lanes elements_per_dense zeroed_dense filled_dense dense_copy nth_reg sum_to_register max_to_register
    min_to_register SA SB SR S O nat unit bool true false list M mem Some None fst snd pair""".split())
for _v in list(R_METHODS.values()) + list(M_METHODS.values()):
    COQ_RESERVED.add(_v[2].split()[0])


def cname(n):
    if n in COQ_RESERVED or re.match(r"^(tmp\d+|gen_.*)$", n):
        return n + "_"
    return n


# ----------------------------------------------------------------------------------------------
# translation of one function
# ----------------------------------------------------------------------------------------------

def free_vars(e, acc=None):
    acc = set() if acc is None else acc
    if isinstance(e, tuple):
        if e and e[0] == "var":
            acc.add(e[1])
        for x in e[1:]:
            free_vars(x, acc)
    elif isinstance(e, list):
        for x in e:
            free_vars(x, acc)
    return acc


def assigned_vars(block, counter):
    """names assigned (x = e / x += e) in a block, in order of first assignment, excluding names `let`-bound in the
    block before the assignment and the loop counter"""
    out, local = [], set()
    stmts, _tail = block
    for s in stmts:
        if s[0] == "let":
            local.add(s[1])
        elif s[0] == "assign" and s[1][0] == "var":
            n = s[1][1]
            if n != counter and n not in local and n not in out:
                out.append(n)
        elif s[0] == "while":
            bad(s[3], "nested `while` loops are not understood (the fuel S dims is only meant for top-level loops)")
    return out


class FnTranslator:
    def __init__(self, fn, known):
        self.fn = fn
        self.known = known          # name -> signature of already translated functions (callees)
        self.scopes = [{}]
        self.le = {}                # usize variable -> names of the variables it is known to be <= (from `x = y % z`)
        self.ntmp = 0
        self.has_loop = False
        self.calls = []

    # -- environment --------------------------------------------------------------------------
    def lookup(self, n):
        for sc in reversed(self.scopes):
            if n in sc:
                return sc[n]
        return None

    def bind(self, n, kind):
        self.scopes[-1][n] = kind

    def tmp(self):
        self.ntmp += 1
        return "tmp%d" % self.ntmp

    # -- expressions: returns (binds, term, kind); binds = [(coqname, computation)] in evaluation order -----------
    def pure(self, e, want=None):
        b, t, k = self.expr(e)
        if b:
            bad(e[-1], "an effectful / fallible operation is not allowed in this position")
        if want and k != want:
            bad(e[-1], "expected a %s expression, found %s" % (want, k))
        return t

    def ptr(self, e):
        """pointer expression -> (slice, index term)"""
        if e[0] == "var":
            k = self.lookup(e[1])
            if not k or k[0] != "ptr":
                bad(e[-1], "`%s` is not a known pointer" % e[1])
            return k[1], None
        if e[0] == "mcall" and e[2] == "add" and len(e[3]) == 1:
            s, idx = self.ptr(e[1])
            off = self.pure(e[3][0], "nat")
            return s, (off if idx is None else "(%s + %s)" % (idx, off))
        if e[0] == "mcall":
            bad(e[-1], "pointer method `.%s` is not understood (only `.add`)" % e[2])
        bad(e[-1], "pointer expression is not understood")

    def expr(self, e):
        k = e[0]
        if k == "int":
            return [], str(e[1]), "nat"
        if k == "var":
            v = self.lookup(e[1])
            if v is None:
                bad(e[-1], "unknown variable `%s`" % e[1])
            if v[0] in ("nat", "val", "bool"):
                return [], cname(e[1]), v[0]
            bad(e[-1], "`%s` (%s) cannot be used as a value here" % (e[1], v[0]))
        if k == "binop":
            op = e[1]
            b1, l, k1 = self.expr(e[2])
            b2, r, k2 = self.expr(e[3])
            if b1 or b2:
                bad(e[-1], "effectful operand of `%s` is not understood" % op)
            if op in ("+", "-", "*", "/", "%"):
                if k1 != "nat" or k2 != "nat":
                    bad(e[-1], "`%s` on non-usize operands is not understood" % op)
                if op == "-":
                    # usize subtraction panics (debug) or wraps (release) on underflow; `nat` subtraction truncates.  The two
                    # agree only when the subtrahend is <= the minuend, which must be evident: `x - y` with y (transitively)
                    # defined as `x % ..`.  Anything else is rejected, never rendered as a truncated subtraction.
                    if not (e[2][0] == "var" and e[3][0] == "var" and e[2][1] in self.le.get(e[3][1], ())):
                        bad(e[-1], "possible usize underflow in `%s - %s`: the subtrahend is not evidently <= the minuend "
                                   "(only `x - y` with `y = x % ..` is understood)" % (l, r))
                return [], "(%s %s %s)" % (l, {"%": "mod"}.get(op, op), r), "nat"
            if op == "<":
                if k1 != "nat" or k2 != "nat":
                    bad(e[-1], "`<` on non-usize operands is not understood")
                return [], "(%s <? %s)" % (l, r), "bool"
            if op in ("&&", "||"):
                if k1 != "bool" or k2 != "bool":
                    bad(e[-1], "`%s` on non-bool operands" % op)
                return [], "(%s %s %s)" % (l, op, r), "bool"
            bad(e[-1], "operator `%s` is not understood" % op)
        if k == "unop":
            if e[1] == "*":
                x = e[2]
                if x[0] == "mcall" and x[2] == "get_unchecked" and len(x[3]) == 1 and x[1][0] == "var":
                    sl = self.lookup(x[1][1])
                    if not sl or sl[0] != "slice":
                        bad(e[-1], "`%s.get_unchecked`: `%s` is not a slice parameter here" % (x[1][1], x[1][1]))
                    idx = self.pure(x[3][0], "nat")
                    t = self.tmp()
                    return [(t, "read1 (m_zero Mth) %s %s" % (sl[1], idx))], t, "val"
                bad(e[-1], "dereference of anything but `slice.get_unchecked(i)` is not understood")
            bad(e[-1], "unary `%s` is not understood" % e[1])
        if k == "field":
            b, t, kk = self.expr(e[1])
            if kk != "val" or e[2] not in DENSE_FIELDS:
                bad(e[-1], "field `.%s` is not a DenseLane field a..h" % e[2])
            return b, "(nth_reg %s %d)" % (t, DENSE_FIELDS[e[2]]), "val"
        if k == "call":
            return self.call(e)
        if k == "mcall":
            bad(e[-1], "method call `.%s(..)` is not understood in this position" % e[2])
        if k == "path":
            bad(e[-1], "path `%s` used as a value" % "::".join(e[1]))
        if k == "if":
            bad(e[-1], "`if` is only understood in tail position")
        bad(e[-1] if isinstance(e[-1], int) else 0, "expression form %s is not understood" % k)

    def args_anf(self, args):
        binds, terms = [], []
        for a in args:
            b, t, kk = self.expr(a)
            if kk not in ("val", "nat"):
                bad(a[-1], "argument of kind %s is not understood" % kk)
            binds += b
            terms.append(t)
        return binds, terms

    def call(self, e):
        f, args, line = e[1], e[2], e[3]
        if f[0] == "var":
            f = ("path", [f[1]], None, f[2])
        if f[0] != "path":
            bad(line, "call of a computed function is not understood")
        segs, turbofish = f[1], f[2]
        if len(segs) == 2 and segs[0] in ("R", "M") and turbofish is None:
            tab = R_METHODS if segs[0] == "R" else M_METHODS
            m = segs[1]
            if segs[0] == "R" and m in ("load", "load_dense"):
                if len(args) != 1:
                    bad(line, "R::%s takes one argument" % m)
                s, idx = self.ptr(args[0])
                idx = "0" if idx is None else idx
                t = self.tmp()
                comp = "load_dense R %s %s" % (s, idx) if m == "load_dense" else "load %s %s (lanes R)" % (s, idx)
                return [(t, comp)], t, "val"
            if segs[0] == "R" and m in ("write", "write_dense"):
                if len(args) != 2:
                    bad(line, "R::%s takes two arguments" % m)
                s, idx = self.ptr(args[0])
                if s != "SR":
                    bad(line, "R::%s through a pointer into `%s`: the model can only write the result slice" % (m, s))
                idx = "0" if idx is None else idx
                b, t, kk = self.expr(args[1])
                if kk != "val":
                    bad(line, "R::%s of a non-register value" % m)
                comp = "write_dense R %s %s" % (idx, t) if m == "write_dense" else "store %s %s" % (idx, t)
                return b + [("!unit", comp)], "tt", "unit"
            if m not in tab:
                bad(line, "%s::%s is not in the method table" % (segs[0], m))
            kind, arity, head = tab[m]
            if len(args) != arity:
                bad(line, "%s::%s expects %d arguments, found %d" % (segs[0], m, arity, len(args)))
            binds, terms = self.args_anf(args)
            term = "(%s)" % " ".join([head] + terms)
            if kind == "opt":
                t = self.tmp()
                return binds + [(t, "lift_opt %s" % term)], t, "val"
            return binds, term, {"pure": "val", "nat": "nat", "bool": "bool"}[kind]
        if segs == ["DenseLane", "copy"] and turbofish is None:
            if len(args) != 1:
                bad(line, "DenseLane::copy takes one argument")
            binds, terms = self.args_anf(args)
            return binds, "(dense_copy %s)" % terms[0], "val"
        # another function of the op_*.rs files: [super::op_x::]name::<T, R, M>(dims, [value,] slices...)
        name = segs[-1]
        if segs[:-1] and not (len(segs) == 3 and segs[0] == "super" and segs[1].startswith("op_")):
            bad(line, "call of `%s` is not understood" % "::".join(segs))
        if name not in self.known:
            bad(line, "call of `%s`, which is not a translated function of op_*.rs" % name)
        sig = self.known[name]
        if sig is None:
            bad(line, "call of `%s`, which could not be translated" % name)
        if turbofish != sig["turbofish"]:
            bad(line, "call of `%s` with generic arguments <%s> (expected <%s>)" % (
                name, " ".join(turbofish or []), " ".join(sig["turbofish"])))
        if len(args) != len(sig["params"]):
            bad(line, "call of `%s` with %d arguments (expected %d)" % (name, len(args), len(sig["params"])))
        binds, terms = [], []
        for a, (pn, pk) in zip(args, sig["params"]):
            if pk[0] == "slice":
                if a[0] != "var" or self.lookup(a[1]) != pk:
                    bad(line, "call of `%s`: parameter `%s` must be passed the caller's own slice `%s`" % (name, pn, pn))
                continue
            b, t, kk = self.expr(a)
            if kk != pk[0]:
                bad(line, "call of `%s`: argument for `%s` has kind %s" % (name, pn, kk))
            binds += b
            terms.append(t)
        self.calls.append(name)
        comp = " ".join(["gen_" + name] + terms)          # inside the Section: R / Mth are not yet abstracted
        if sig["ret"] == "unit":
            return binds + [("!unit", comp)], "tt", "unit"
        t = self.tmp()
        return binds + [(t, comp)], t, "val"

    # -- statements ---------------------------------------------------------------------------
    def emit_binds(self, out, ind, binds, unit_ctx):
        for n, comp in binds:
            if n == "!unit":
                out.append((ind, "%s <- %s ;;" % ("u" if unit_ctx else "_", comp), "unit-eff" if unit_ctx else None))
            else:
                out.append((ind, "%s <- %s ;;" % (n, comp), None))

    def let_like(self, out, ind, name, e, unit_ctx, declare):
        """`let name = e` / `name = e`"""
        # pointer / slice aliases: only the canonical forms
        if e[0] == "mcall" and e[2] in ("as_ptr", "as_mut_ptr") and not e[3] and e[1][0] == "var":
            sl = self.lookup(e[1][1])
            if not sl or sl[0] != "slice":
                bad(e[-1], "`%s.%s()`: `%s` is not a slice parameter" % (e[1][1], e[2], e[1][1]))
            if not declare:
                bad(e[-1], "assignment of a pointer is not understood")
            if e[2] == "as_mut_ptr" and sl[1] != "SR":
                bad(e[-1], "as_mut_ptr on an input slice")
            self.bind(name, ("ptr", sl[1]))
            return
        binds, term, kind = self.expr(e)
        if kind not in ("val", "nat"):
            bad(e[-1], "binding a %s expression to a variable is not understood" % kind)
        # order facts: `name = u % ..`  gives  name <= u  and  name <= everything u is <= (a re-binding of `name`
        # invalidates what was known about, and through, the old `name`)
        ub = set()
        if kind == "nat" and e[0] == "binop" and e[1] == "%" and e[2][0] == "var":
            u = e[2][1]
            ub = set(self.le.get(u, ())) | ({u} if u != name else set())
        for v in list(self.le):
            self.le[v].discard(name)
        self.le[name] = ub - {name}
        if not declare:
            old = self.lookup(name)
            if old is None or old[0] != kind:
                bad(e[-1], "assignment to `%s`, which is not a variable of kind %s" % (name, kind))
        cn = cname(name)
        if binds and binds[-1][0] == term:                    # x <- effect ;;
            self.emit_binds(out, ind, binds[:-1], unit_ctx)
            out.append((ind, "%s <- %s ;;" % (cn, binds[-1][1]), None))
        else:
            self.emit_binds(out, ind, binds, unit_ctx)
            out.append((ind, "let %s := %s in" % (cn, term), None))
        self.bind(name, (kind,))

    def state_pat(self, names, lam=False):
        if not names:
            return "u"
        if len(names) == 1:
            return cname(names[0])
        p = "(" + ", ".join(cname(n) for n in names) + ")"
        return "'" + p if lam else p

    def block(self, out, ind, blk, result, in_loop=False):
        """Render a statement list.  `result`: ("state", names) -> ends with `ret <state tuple>`;
        ("fn", rettype) -> ends with the tail expression (or the unit token)."""
        stmts, tail = blk
        unit_ctx = (result[0] == "state" and not result[1]) or (result[0] == "fn" and result[1] == "unit")
        self.scopes.append({})
        for s in stmts:
            if s[0] == "ignored":
                continue
            if s[0] == "let":
                self.let_like(out, ind, s[1], s[3], unit_ctx, True)
            elif s[0] == "assign":
                lhs, op, rhs, line = s[1], s[2], s[3], s[4]
                if lhs[0] == "var":
                    if op == "=":
                        self.let_like(out, ind, lhs[1], rhs, unit_ctx, False)
                    elif op in ("+=", "-=", "*="):
                        self.let_like(out, ind, lhs[1], ("binop", op[0], lhs, rhs, line), unit_ctx, False)
                    else:
                        bad(line, "assignment operator `%s` is not understood" % op)
                elif (lhs[0] == "unop" and lhs[1] == "*" and lhs[2][0] == "mcall" and lhs[2][2] == "get_unchecked_mut"
                      and len(lhs[2][3]) == 1 and lhs[2][1][0] == "var" and op == "="):
                    sl = self.lookup(lhs[2][1][1])
                    if sl != ("slice", "SR"):
                        bad(line, "`*%s.get_unchecked_mut(..) = ..`: the model can only write the `result` slice" % lhs[2][1][1])
                    # Rust evaluates the right-hand side of an assignment before the place expression's operands
                    binds, term, kind = self.expr(rhs)
                    if kind != "val":
                        bad(line, "stored value is not an element")
                    idx = self.pure(lhs[2][3][0], "nat")
                    self.emit_binds(out, ind, binds + [("!unit", "write1 %s %s" % (idx, term))], unit_ctx)
                else:
                    bad(line, "assignment to this place expression is not understood")
            elif s[0] == "while":
                if in_loop:
                    bad(s[3], "nested `while` loops are not understood")
                self.loop(out, ind, s)
            elif s[0] == "expr":
                e = s[1]
                if e[0] == "if":
                    bad(s[2], "`if` statement in the middle of a block is not understood (only a tail `if .. else ..`)")
                binds, term, kind = self.expr(e)
                if kind != "unit":
                    bad(s[2], "expression statement with a non-unit value is not understood")
                self.emit_binds(out, ind, binds, unit_ctx)
        # the end of the block
        if result[0] == "state":
            if tail is not None:
                bad(tail[-1], "loop body with a tail expression")
            self.finish(out, ind, self.state_pat(result[1]), unit_ctx)
        else:
            self.tail(out, ind, tail, result[1], unit_ctx)
        self.scopes.pop()

    def finish(self, out, ind, value, unit_ctx):
        if unit_ctx and out and out[-1][2] == "unit-eff" and out[-1][0] == ind:
            # `u <- c ;; ret u`  is written  `c`
            i0, txt, _ = out.pop()
            out.append((i0, txt[len("u <- "):-len(" ;;")], None))
        else:
            out.append((ind, "ret %s" % value, None))

    def tail(self, out, ind, tail, ret, unit_ctx):
        if tail is None:
            if ret != "unit":
                bad(self.fn["line"], "function returning a value has no tail expression")
            self.finish(out, ind, "u", True)
            return
        if tail[0] == "if":
            cond, then, els, line = tail[1], tail[2], tail[3], tail[4]
            if els is None:
                bad(line, "`if` without `else` is not understood")
            c = self.pure(cond, "bool")
            out.append((ind, "if %s then (" % c, None))
            self.block(out, ind + 1, then, ("fn", ret))
            out.append((ind, ") else (", None))
            self.block(out, ind + 1, els, ("fn", ret))
            out.append((ind, ")", None))
            return
        binds, term, kind = self.expr(tail)
        if ret == "unit":
            if kind != "unit":
                bad(tail[-1], "tail expression of a unit function is not a unit call")
            self.emit_binds(out, ind, binds, True)
            self.finish(out, ind, "u", True)
            return
        if kind != "val":
            bad(tail[-1], "tail expression is not an element value")
        if binds and binds[-1][0] == term:                    # `x <- c ;; ret x`  is written  `c`
            self.emit_binds(out, ind, binds[:-1], unit_ctx)
            out.append((ind, binds[-1][1], None))
        else:
            self.emit_binds(out, ind, binds, unit_ctx)
            out.append((ind, "ret %s" % term, None))

    def loop(self, out, ind, s):
        cond, body, line = s[1], s[2], s[3]
        self.has_loop = True
        if not (cond[0] == "binop" and cond[1] == "<" and cond[2][0] == "var"):
            bad(line, "loop condition is not of the form `counter < bound`")
        ctr = cond[2][1]
        if self.lookup(ctr) != ("nat",):
            bad(line, "loop counter `%s` is not a usize variable" % ctr)
        stmts, btail = body
        real = [x for x in stmts if x[0] != "ignored"]
        if not real:
            bad(line, "empty loop body")
        last = real[-1]
        if not (last[0] == "assign" and last[1] == ("var", ctr, last[1][2]) and last[2] == "+="):
            bad(line, "the last statement of the loop body is not `%s += step;`" % ctr)
        for x in real[:-1]:
            if x[0] == "assign" and x[1][0] == "var" and x[1][1] == ctr:
                bad(x[4], "the loop counter is assigned in the middle of the loop body")
            if x[0] == "let" and x[1] == ctr:
                bad(x[4], "the loop counter is shadowed in the loop body")
        state = assigned_vars((real[:-1], None), ctr)
        for n in state:
            k = self.lookup(n)
            if k is None or k[0] != "val":
                bad(line, "loop assigns `%s`, which is not a register/element variable declared before the loop" % n)
        bound_fv = free_vars(cond[3])
        step_fv = free_vars(last[3])
        local = {x[1] for x in real if x[0] == "let"}
        for n in sorted(local & set(state)):
            bad(line, "`%s` is both assigned and re-declared with `let` inside the loop body" % n)
        for n in sorted((bound_fv | step_fv) & (set(state) | {ctr} | local)):
            bad(line, "loop bound / step mentions `%s`, which changes inside the loop" % n)
        bound = self.pure(cond[3], "nat")
        step = self.pure(last[3], "nat")
        c = cname(ctr)
        pat = self.state_pat(state)
        out.append((ind, "'(%s, %s) <- while_lt fuel %s %s %s" % (c, pat, c, bound, step), None))
        out.append((ind + 1, "(fun %s %s =>" % (c, self.state_pat(state, lam=True) if state else "u"), None))
        self.block(out, ind + 2, (real[:-1], btail), ("state", state), in_loop=True)
        i0, txt, _ = out.pop()
        out.append((i0, "%s) %s ;;" % (txt, pat), None))

    # -- the function -------------------------------------------------------------------------
    def translate(self):
        fn = self.fn
        params, coq_params, sig_params = [], [], []
        for pn, pt in fn["params"]:
            if pt == "usize":
                kind = ("nat",)
                coq_params.append("(%s : nat)" % cname(pn))
            elif pt == "T":
                kind = ("val",)
                coq_params.append("(%s : T)" % cname(pn))
            elif pt in ("& [ T ]", "& mut [ T ]"):
                if pn not in SLICES:
                    raise Untranslatable("slice parameter `%s` is not one of a / b / result" % pn)
                if (pt == "& mut [ T ]") != (pn == "result"):
                    raise Untranslatable("slice parameter `%s` has unexpected mutability" % pn)
                kind = ("slice", SLICES[pn])
            else:
                raise Untranslatable("parameter `%s: %s` has a type that is not understood" % (pn, pt))
            self.bind(pn, kind)
            sig_params.append((pn, kind))
        if fn["ret"] is None:
            ret = "unit"
        elif fn["ret"] == "T":
            ret = "val"
        else:
            raise Untranslatable("return type `%s` is not understood" % fn["ret"])
        out = []
        body = Parser(fn["body"]).block_body()
        self.block(out, 2, body, ("fn", ret))
        text = "\n".join("  " * ind + txt for ind, txt, _ in out)
        uses = lambda w: re.search(r"\b%s\b" % w, text) is not None   # noqa: E731
        pre = []
        if self.has_loop:
            if self.scopes[0].get("dims") != ("nat",):
                raise Untranslatable("a function with loops must have a `dims: usize` parameter (fuel = S dims)")
            pre.append("    let fuel := S dims in")
        if ret == "unit":
            pre.append("    let u := tt in")
        sections = [w for w in ("R", "Mth") if uses(w)]
        gen = ["T", "R", "M"] if fn["name"].startswith("generic_") else None
        sig = {"params": sig_params, "ret": ret, "sections": sections, "turbofish": gen}
        head = "  Definition gen_%s %s : M T %s :=" % (fn["name"], " ".join(coq_params), "T" if ret == "val" else "unit")
        return head + "\n" + "\n".join(pre + [text]) + ".", sig


HELPER_TURBOFISH = {"cosine": ["T", ",", "M"]}


def translate_all(repo):
    """returns (coq_text, info)"""
    files = sorted(glob.glob(os.path.join(repo, SRC_GLOB)))
    if not files:
        raise TranslateError("no %s under %s" % (SRC_GLOB, repo))
    fns = {}
    order = []
    ignored = {"test_fns": 0, "debug_asserts": 0}
    for path in files:
        rel = os.path.basename(path)
        with open(path) as f:
            toks = tokenize(f.read())
        for fn in find_fns(toks):
            if fn["test"]:
                ignored["test_fns"] += 1
                continue
            if fn["name"] in fns:
                raise TranslateError("function %s defined twice (%s, %s)" % (fn["name"], fns[fn["name"]]["file"], rel))
            fn["file"] = rel
            fns[fn["name"]] = fn
            order.append(fn["name"])
            ignored["debug_asserts"] += sum(1 for t in fn["body"] if t.text in IGNORED_MACROS)
    # callees first: a function is translated once every op_*.rs function it mentions has been tried
    mention = {n: [t.text for t in fns[n]["body"] if t.kind == "ident" and t.text in fns and t.text != n] for n in order}
    done, known, defs, failed = [], {}, {}, {}
    pending = sorted(order)
    while pending:
        ready = [n for n in pending if all(m in known for m in mention[n])]
        if not ready:
            for n in pending:
                failed[n] = "recursive / cyclic calls among op_*.rs functions"
                known[n] = None
            break
        for n in ready:
            pending.remove(n)
            tr = FnTranslator(fns[n], known)
            try:
                text, sig = tr.translate()
                if sig["turbofish"] is None:
                    sig["turbofish"] = HELPER_TURBOFISH.get(n)
                else:
                    sig["turbofish"] = ["T", ",", "R", ",", "M"]
                known[n] = sig
                defs[n] = text
                done.append(n)
            except Untranslatable as ex:
                failed[n] = str(ex)
                known[n] = None
    kernels = sorted(n for n in order if n.startswith("generic_"))
    helpers = sorted(n for n in order if not n.startswith("generic_"))
    L = ["(* GENERATED by tools/translate_kernels.py from cfavml/src/danger/op_*.rs — do not edit.",
         "   One definition per non-test fn, a statement-by-statement rendering of the Rust body (see the header of the",
         "   translator for the mapping).  debug_assert*! are ignored (modelled at the safe/export layer). *)",
         "From Coq Require Import List Arith Bool String.",
         "From CF Require Import Base.Mem Model.SimdApi.",
         "Import ListNotations.", "",
         "Section GenKernels.", "  Context {T : Type}.", "  Variable R : SimdOps T.", "  Variable Mth : MathOps T.", ""]
    for n in done:
        L.append("  (* %s: fn %s *)" % (fns[n]["file"], n))
        L.append(defs[n])
        L.append("")
    L.append("End GenKernels.")
    L.append("")
    L.append("(* (kernel, file) of every `generic_*` fn that was translated *)")
    L.append("Definition gen_kernel_sources : list (string * string) := [")
    L.append(";\n".join('  ("%s"%%string, "%s"%%string)' % (n, fns[n]["file"]) for n in kernels if n in defs))
    L.append("].")
    L.append("Definition gen_helper_sources : list (string * string) := [")
    L.append(";\n".join('  ("%s"%%string, "%s"%%string)' % (n, fns[n]["file"]) for n in helpers if n in defs))
    L.append("].")
    L.append("(* functions the translator could NOT render (nothing is emitted for them) *)")
    L.append("Definition gen_kernels_untranslated : list string := [")
    L.append(";\n".join('  "%s"%%string  (* %s: %s *)' % (n, fns[n]["file"], failed[n].replace("*)", "* )"))
                        for n in sorted(failed)))
    L.append("].")
    L.append("Definition gen_kernel_count : nat := %d." % len([n for n in kernels if n in defs]))
    info = {"files": [os.path.basename(p) for p in files],
            "translated": [n for n in kernels if n in defs], "helpers": [n for n in helpers if n in defs],
            "untranslated": [{"name": n, "file": fns[n]["file"], "reason": failed[n]} for n in sorted(failed)],
            "ignored": ignored}
    return "\n".join(L) + "\n", info


def gen_kernels(facts, write_if_changed, GEN, REPO, out_path=None):
    text, info = translate_all(REPO)
    write_if_changed(out_path or os.path.join(GEN, "GenKernels.v"), text)
    facts["kernels"] = info
    if info["untranslated"]:
        raise TranslateError("untranslatable: " + "; ".join(
            "%s (%s): %s" % (u["name"], u["file"], u["reason"]) for u in info["untranslated"]))


def steps(facts, write_if_changed, GEN, REPO):
    return [("kernels", lambda: gen_kernels(facts, write_if_changed, GEN, REPO))]


if __name__ == "__main__":
    repo, outp = os.environ.get("VERIF_REPO", "/repo"), None
    av = sys.argv[1:]
    while av:
        a = av.pop(0)
        if a == "--repo":
            repo = av.pop(0)
        elif a == "--out":
            outp = av.pop(0)
        else:
            sys.exit("usage: translate_kernels.py [--repo DIR] [--out FILE]")
    facts = {}

    def w(path, content):
        if outp:
            with open(path, "w") as f:
                f.write(content)
        else:
            sys.stdout.write(content)
    rc = 0
    try:
        gen_kernels(facts, w, None, repo, out_path=outp or "-")
    except TranslateError as ex:
        print("TRANSLATE-ERROR step=kernels %s" % ex, file=sys.stderr)
        rc = 1
    print(json.dumps({k: v for k, v in facts.get("kernels", {}).items() if k != "files"}), file=sys.stderr)
    sys.exit(rc)
