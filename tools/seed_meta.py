#!/usr/bin/env python3
"""Writes seeded/<id>/meta.json (one place to edit).  Each entry: which property the change breaks, what it needs in
order to manifest, what was run to confirm it (by us, in a scratch worktree), and which checks report it."""
import json, os
ROOT = os.path.join(os.path.dirname(os.path.dirname(os.path.abspath(__file__))), "seeded")
CONFIRM = ("scratch worktree of /repo HEAD d1b2a49 with patch.diff applied: `cargo nextest run --workspace --no-fail-fast "
           "--test-threads 8 --offline` -> 202 passed; demo (own cargo project, path dependency on the worktree) exits non-zero "
           "with the change and zero after `git apply -R patch.diff`; then the checks were run against a patched COPY of the "
           "repository: `vp run --with-repo -- sh tools/seedrun.sh <patch> <IDs>` (VERIF_REPO = the patched snapshot, full setup "
           "from a fresh checkout of /verif, quick tier)")
S = {
 "C01-1": ("C01", "generic_max_value: scalar tail replaced by one overlapping last register; for 0 < len < lane `dims - lane` wraps and a "
           "full register is loaded/stored BEFORE the start of a / result",
           "a *_max_value call with 0 < len < elements_per_lane on a SIMD dispatch outcome (AVX2 / AVX-512), release build (debug panics on the subtraction)",
           "demo: cargo run --release --offline (12 FAIL lines / exit 1; exit 0 without)",
           {"C01": "safe-oob:export_safe_value_op:{any,const} (canary before result damaged; guard pages)", "C07": "sym-oob:KMaxVal (A: register access Ra-1+2 outside 0..1) + C07:memory:<20 exports> (C)",
            "C05": "sym-oob + C05:memory:*", "C08": "sym-oob + memory:*"}),
 "C02-1": ("C02", "Avx2 <i32>::div computed through f64 (_mm256_div_pd + cvttpd): a zero divisor lane no longer panics, it stores i32::MIN",
           "i32, AVX2 back end, a zero divisor at an index handled by the SIMD loops (not the scalar tail)",
           "demo: cargo run --offline (20 deviations / exit 1; exit 0 without)",
           {"C02": "C02:spec:i32_xany_avx2_nofma_div_vector (specification: must panic)", "C13": "reg:Avx2:i32:div, reg:Avx2:i32:div_dense (B)"}),
 "C03-1": ("C03", "Avx2 <u64>::sum_to_value: final add of the two 64-bit partial sums done with _mm_add_epi32 (carry out of bit 31 lost)",
           "u64 reductions on AVX2, >= 4 elements, low dwords of the partial sums carrying",
           "demo: cargo run --offline (8 mismatches / exit 1; exit 0 without)",
           {"C03": "C03:spec:u64_xany_avx2_nofma_{dot,squared_euclidean,squared_norm,sum}", "C13": "reg:Avx2:u64:sum_to_value"}),
 "C05-1": ("C05", "Avx2 <u64>::max_to_value / min_to_value: the sign-bit bias dropped from the 128-bit fold (signed compare of unsigned values)",
           "u64 horizontal max/min on AVX2 with values on both sides of 2^63, extreme in the SIMD-processed prefix",
           "demo: cargo run --offline (1232 mismatches / exit 1; exit 0 without)",
           {"C05": "C05:spec:u64_xany_avx2_nofma_{max,min}_horizontal (value class `extreme`: values straddling the sign bit)", "C13": "reg:Avx2:u64:{max,min}_to_value"}),
 "C07-1": ("C07", "generic_max_horizontal: scalar tail replaced by an overlapping last register load at a_ptr + dims - lane: for 0 < dims < lane it reads BEFORE the slice",
           "max_horizontal with 0 < len < lane on a SIMD back end; visible when memory before the slice is larger than the max or unmapped",
           "demo: cargo run --offline (wrong values + SIGSEGV on a guard page / exit 1; exit 0 without)",
           {"C07": "sym-oob:KMaxH (A) + C07:memory:* (crash on the left guard page: placement L) + C07:spec:*", "C05": "sym-oob + C05:spec:*", "C08": "sym-oob + memory:*",
            "C01": "safe-oob:export_safe_horizontal_op:{any,const} - MISSED by the first version of the check (slices were only placed flush RIGHT); caught after correspondence D alternates left/right placements"}),
 "C08-1": ("C08", "generic_dot_product peels a.as_ptr().align_offset(register) head elements into the scalar tail: which elements go through the vector accumulators depends on the ADDRESS of a",
           "f32/f64 dot on a SIMD back end, two placements of a differing modulo the register width, inexact data",
           "demo: cargo run --offline (78 placement-dependent results / exit 1; exit 0 without)",
           {"C08": "placement:<dot exports> (paired runs: same logical input, different byte offsets -> different bits)"}),
 "C09-1": ("C09", "dispatch!: the avx2fma link's guard drops is_avx2_available() (`FMA implies AVX2` is false)",
           "FMA reported available and AVX2 not (2 of the 8 feature subsets; needs the dispatch hook to present it on this host)",
           "demo: cargo run --offline with --cfg cfavml_verif (17 failures / exit 1; exit 0 without)",
           {"C09": "theorem chain_selects_spec no longer compiles + dispatch-select:<mask,slots> (the REAL macro under the hook vs the specification) - the concrete input was MISSING in the first version (the probe compared with the regenerated chain only)",
            "C10": "C10_dispatch / chain_selects_spec broken (no-failing-input-found)"}),
 "C10-1": ("C10", "Avx512 <i64>::mul uses _mm512_mullo_epi64 (AVX512DQ) instead of _mm512_mullox_epi64; the dispatcher tests avx512f+avx512bw only",
           "nightly build, AVX-512 tier selected, a CPU with avx512f/bw but without avx512dq, an i64/u64 multiply",
           "demo (static, bash run.sh): optimised-IR call-graph walk finds a +avx512dq function under avx512f-only callers (exit 1; exit 0 without)",
           {"C10": "gate:avx512:avx512dq (refutation certified by coqc) + ir-edge:export-avx512:avx512dq"}),
 "C11-1": ("C11", "Avx2Fma <f32>::fmadd_dense overridden to forward to Avx2's (unfused mul_dense + add_dense): *_avx2_fma_* routines are unfused in their dense loop",
           "f32, >= 128 elements (non-zero accumulator in the dense loop), bit-exact comparison",
           "demo: cargo run --offline (7 routines / exit 1; exit 0 without)",
           {"C13": "reg:Avx2Fma:f32:fmadd_dense", "C11": "export-name:f32_xany_avx2_fma_dot ... (by-name run vs the model of the NAME) - MISSED by the first version (longest by-name case had one dense block); caught after adding 3 dense blocks",
            "C04": "correspondence broken (implementation != model bit for bit), bound still met: no-failing-input-found"}),
 "C12-1": ("C12", "safe f64 squared_euclidean: the xconst avx2fma slot is wired to f64_xconst_avx2_nofma_squared_euclidean",
           "dispatch outcome AVX2+FMA (stable build on this host), DIMS >= 8, inexact f64 data",
           "demo: cargo run --offline (5 xconst/xany disagreements / exit 1; exit 0 without)",
           {"C12": "safe-const-any:f64_xconst_squared_euclidean (+ reflection safe_entries_forms_agree)", "C09": "safe-slot:f64_xany_squared_euclidean (C09_slots)"}),
 "C13-1": ("C13", "Avx2 <u8>::fmadd adds with <Self as SimdRegister<u16>>::add (carry leaks into the neighbouring byte lane)",
           "u8 on AVX2, single-register fmadd with a non-zero accumulator and an even lane wrapping past 255 (len % 256 >= 32)",
           "demo: cargo run --offline (50 mismatches / exit 1; exit 0 without)",
           {"C13": "reg:Avx2:u8:fmadd", "C03": "C03:spec:u8_xany_avx2_nofma_{dot,squared_euclidean,squared_norm}"}),
 "C14-1": ("C14", "is_avx512_available() reads std::env::var(\"CFAVML_NO_AVX512\") once into a OnceLock<bool> (allocates a String when the variable is set)",
           "nightly + std build, the variable present in the environment, and the FIRST dispatching call of the process",
           "demo: cargo +nightly run --offline --release (1 allocation / exit 1; exit 0 without)",
           {"C14": "alloc-symbol:nightly-std (__rust_dealloc referenced), unpredicted-std:nightly-std (std::sys::sync::once) + static: theorems C14_noalloc no longer compile (std::env / OnceLock mention)",
            "C09": "translator cannot parse the new predicate body: no-failing-input-found (collateral)"}),
 "C15-1": ("C15", "generic_transpose returns early when j == height after the blocked loop, skipping the scalar tail of each row",
           "f32/u32/f64/u64 with AVX2, height a multiple of the block (16 / 8) and width not",
           "demo: cargo run --offline (976 shapes wrong / exit 1; exit 0 without)",
           {"C15": "transpose-result:{a64,a32,avx2-4x4,...}:release/debug (result cell keeps its prefill `x`)"}),
 "C16-1": ("C16", "AlignedBuffer::zeroed sizes the allocation from `len * size_of::<T>()` (unchecked): wraps in release for huge len",
           "release build, len > usize::MAX / size_of::<T>() (e.g. 2^62 + k for f32)",
           "demo: cargo run --release --offline (24 violations / exit 1; exit 0 without)",
           {"C16": "undersized:release (zeroed(2^63+100) for 64-byte T: allocated_size()=101) - MISSED by the first version (bookkeeping-only lengths were usize::MAX, usize::MAX-1, isize::MAX only); caught after adding 2^p + k for p in 52..63"}),
 "C17-1": ("C17", "get_or_init_pool builds the pool outside the OnceLock and `set`s it: a thread that loses the race keeps a private Owned pool",
           ">= 2 threads calling get_or_init_pool() concurrently for the first time, caching enabled",
           "demo: cargo run --offline (5 of 5 rounds hand out more than one pool / exit 1; exit 0 without)",
           {"C17": "cache-not-shared:race (utilh race N: callers partitioned over several pools)"}),
 "C18-1": ("C18", "integer Math::div uses `a / b` instead of wrapping_div (MIN / -1 panics)",
           "the operand pair (T::MIN, -1) of a signed type; through the vector API only in the scalar tail / fallback",
           "demo: cargo run --offline (5 mismatches / exit 1; exit 0 without)",
           {"C18": "math:std:{i8,i16,i32,i64}:div (implementation panics, primitive wraps) - in a FRESH checkout the first version only reported no-failing-input-found because the translator rejected `/` and no GenMath.v existed; `/` and `%` are now translated as partial primitives",
            "C02": "C02:spec:<int div exports> (boundary data reaches MIN / -1 in the tail)"}),
 "C06-1": ("C06", "generic_cosine returns one() early when either norm is zero - before the both-zero branch (cosine(0,0) = 1 instead of 0)",
           "both arguments zero-norm (all-zero or empty, or integer vectors whose norm wraps to 0)",
           "demo: cargo run --offline (67 checks fail / exit 1; exit 0 without)", {}),
 "C04-1": ("C04", "Avx2 <f32>::fmadd_dense hand-expanded with a copy-paste slip: lane f accumulates onto acc.e (elements 40..47 of every non-final 64-block dropped, 32..39 doubled)",
           "f32 dot / norm / euclid on AVX2 WITHOUT FMA (direct *_avx2_nofma_* call or a mask without FMA), >= 128 elements",
           "demo: cargo run --offline (17 results differ / exit 1; exit 0 without)", {}),
}

# ---- second round (different mechanisms / back ends) -------------------------------------------------------------
S.update({
 "C01-2": ("C01", "generic_min_vertical: scalar tail replaced by one overlapping last register (reads a, b and WRITES result before their start for 0 < len < lane)",
           "min_vertical with 0 < len < lane on a SIMD back end, any build profile (pointer arithmetic: no debug panic)",
           "demo: cargo run --offline (33 OOB writes + SIGSEGV on a guard page / exit 1; exit 0 without)",
           {"C01": "safe-oob:export_safe_vertical_op:{any,const}", "C07": "sym-oob:KMinV (A) + C07:memory:*", "C08": "sym-oob + memory:*"}),
 "C02-2": ("C02", "Avx512 <i8>::mul_dense: blend mask literal 0xAAAAAAAAAAAAAAA (15 A's): bytes 61 and 63 of every register come from the wrong product",
           "nightly + AVX-512, i8/u8 multiply, length >= 512 (dense loop only), index % 64 in {61, 63}",
           "demo: cargo +nightly run --offline (832 wrong elements / exit 1; exit 0 without)",
           {"C02": "C02:spec:{i8,u8}_xany_avx512_nofma_mul_{value,vector} (n=512)", "C13": "reg:Avx512:{i8,u8}:{mul_dense,fmadd_dense}", "C03": "C03:spec:{i8,u8}_xany_avx512_nofma_{dot,squared_euclidean,...}"}),
 "C03-2": ("C03", "Avx512 <i16>::fmadd: _mm512_adds_epi16 (saturating) instead of the wrapping add",
           "nightly + AVX-512, i16 dot/norm/euclid, len % 256 >= 32, a lane partial sum overflowing i16",
           "demo: cargo +nightly run --offline (2570 mismatches / exit 1; exit 0 without)",
           {"C03": "C03:spec:i16_xany_avx512_nofma_{dot,squared_euclidean,squared_norm} (n=65)", "C13": "reg:Avx512:i16:fmadd"}),
 "C05-2": ("C05", "Avx512 <u8>::max_to_value combines the 256-bit halves with the SIGNED <Avx2 as SimdRegister<i8>>::max",
           "nightly + AVX-512, u8 horizontal max, len >= 64, max >= 128 facing a value < 128 in the other half",
           "demo: cargo +nightly run --offline (144385 wrong / exit 1; exit 0 without)",
           {"C05": "C05:spec:u8_xany_avx512_nofma_max_horizontal (n=64, special data)", "C13": "reg:Avx512:u8:max_to_value"}),
 "C07-2": ("C07", "generic_min_horizontal: scalar tail replaced by an overlapping register load before the slice for 0 < dims < lane",
           "min_horizontal with 0 < len < lane on a SIMD back end",
           "demo: cargo run --offline (1003 out-of-slice results + SIGSEGV / exit 1; exit 0 without)",
           {"C07": "sym-oob:KMinH + C07:memory:* (left guard page) + C07:spec:*", "C05": "sym-oob + C05:spec:*", "C01": "safe-oob:export_safe_horizontal_op:{any,const}"}),
 "C12-2": ("C12", "export_safe_horizontal_op!, xconst arm only: `if DIMS == 1 { return a[0]; }` (skips the fold into the neutral start value)",
           "safe xconst sum / min_horizontal / max_horizontal, float type, DIMS == 1, the element -0.0 (sum) or NaN (min/max)",
           "demo: cargo run --offline (6 mismatches / exit 1; exit 0 without)",
           {"C12": "translator: unexpected statement in the macro arm (theorems over the regenerated tables cannot be re-established) - the FIRST versions only reported no-failing-input-found; after adding DIMS = 1 exhaustively over the special float values the const-vs-any run reports safe-const-any:<routine>"}),
 "C13-2": ("C13", "Avx2 <i16>::max_to_value: the four fold accumulators start at 0 instead of i16::MIN",
           "i16 horizontal max on AVX2 / AVX-512 (delegates) with every lane negative",
           "demo: cargo run --offline (12 mismatches / exit 1; exit 0 without)",
           {"C13": "reg:Avx2:i16:max_to_value, reg:Avx512:i16:max_to_value", "C05": "C05:spec:i16_xany_{avx2,avx512}_nofma_max_horizontal (n=0: identity must be i16::MIN)"}),
 "C15-2": ("C15", "transpose_matrix: the result-length assert_eq! turned into debug_assert_eq! (\"validated again below\" - not on the scalar path)",
           "release build, an element type on the scalar path (i32, u8, u16, u128...), width, height >= 2, result.len() != data.len()",
           "demo: cargo run --release --offline (4 violations / exit 1; exit 0 without)",
           {"C15": "transpose-mismatch-silent:release, transpose-mismatch-crash:release (+ the shape-check form read from the source refutes C15_rejects for release)"}),
})
S["C06-1"] = (S["C06-1"][0], S["C06-1"][1], S["C06-1"][2], S["C06-1"][3], {"C06": "C06:spec:<all cosine exports> (n=0 and zero vectors: specification says 0) - 56 violations"})
S["C04-1"] = (S["C04-1"][0], S["C04-1"][1], S["C04-1"][2], S["C04-1"][3], {"C04": "bound:f32_xany_avx2_nofma_{dot,squared_norm,squared_euclidean} and exact:* (n=139), bound:f32_xany_dot[mask=4] (safe API under the no-FMA mask)", "C13": "reg:Avx2:f32:fmadd_dense"})
for name, (prop, change, needs, demo, caught) in S.items():
    d = os.path.join(ROOT, name)
    os.makedirs(d, exist_ok=True)
    extra = {}
    p = os.path.join(d, "results.json")
    if os.path.exists(p):
        extra = json.load(open(p))
    caught = dict(caught); caught.update(extra)
    json.dump({"seed": name, "breaks_property": prop, "change": change, "needs_to_manifest": needs,
               "existing_suite_with_change": "202 passed (confirmed)", "demonstration": demo, "what_was_run": CONFIRM,
               "reported_by_checks": caught}, open(os.path.join(d, "meta.json"), "w"), indent=1)
print("wrote", len(S), "meta.json files")
