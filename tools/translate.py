#!/usr/bin/env python3
"""translate.py — regenerate the Coq tables under coq/Gen/ from /repo's working tree (tie 1 of DESIGN.md).

Everything tabular or one-line in the repository is re-read on every run:
  GenExports.v   danger/export_*.rs      768 macro invocations
  GenMacros.v    the 6 export macros and the 8 safe macros (arm by arm)
  GenSafe.v      safe_*.rs               190 macro invocations
  GenDispatch.v  dispatch.rs             the dispatch! chain and the is_*_available predicates
  (further generators live in translate_more.py and are called from here)
It writes a file only when its content changed (so `make` stays incremental) and fails loudly, with
TranslateError, on anything it cannot parse.  It also writes .build/gen_facts.json for the Python side.
"""
import json
import os
import re
import sys

sys.path.insert(0, os.path.dirname(os.path.abspath(__file__)))
from rustlex import (TranslateError, tokenize, match_close, texts, split_top, strip_attrs)  # noqa: E402

REPO = os.environ.get("VERIF_REPO", "/repo")
VERIF = os.path.dirname(os.path.dirname(os.path.abspath(__file__)))
GEN = os.path.join(VERIF, "coq", "Gen")
BUILD = os.path.join(VERIF, ".build")

TYS = {"i8": "I8", "i16": "I16", "i32": "I32", "i64": "I64", "u8": "U8", "u16": "U16", "u32": "U32",
       "u64": "U64", "f32": "F32", "f64": "F64"}
REGS = {"Fallback": "Fallback", "Avx2": "Avx2", "Avx2Fma": "Avx2Fma", "Avx512": "Avx512", "Neon": "Neon"}
KERNELS = {
    "generic_dot_product": "KDot", "generic_cosine": "KCosine", "generic_euclidean": "KEuclid",
    "generic_squared_norm": "KNorm", "generic_sum": "KSum",
    "generic_max_horizontal": "KMaxH", "generic_max_vertical": "KMaxV", "generic_max_value": "KMaxVal",
    "generic_min_horizontal": "KMinH", "generic_min_vertical": "KMinV", "generic_min_value": "KMinVal",
    "generic_add_value": "KAddVal", "generic_sub_value": "KSubVal", "generic_mul_value": "KMulVal",
    "generic_div_value": "KDivVal", "generic_add_vector": "KAddVec", "generic_sub_vector": "KSubVec",
    "generic_mul_vector": "KMulVec", "generic_div_vector": "KDivVec",
}
PARAMS = {"value": "PValue", "a": "PA", "b": "PB", "result": "PResult"}
SLOTS = {"avx512": "SAvx512", "avx2fma": "SAvx2Fma", "avx2": "SAvx2", "neon": "SNeon", "fallback": "SFallback"}
PREDS = {"is_avx512_available": "PAvx512", "is_avx2_available": "PAvx2", "is_fma_available": "PFma",
         "is_neon_available": "PNeon"}

EXPORT_FILES = ["cfavml/src/danger/export_arithmetic_ops.rs", "cfavml/src/danger/export_distance_ops.rs",
                "cfavml/src/danger/export_min_max_sum_norm.rs"]
SAFE_FILES = ["cfavml/src/safe_arithmetic_ops.rs", "cfavml/src/safe_distance_ops.rs",
              "cfavml/src/safe_min_max_sum_ops.rs", "cfavml/src/safe_norm_ops.rs"]


def read(rel):
    with open(os.path.join(REPO, rel)) as f:
        return f.read()


def cstr(s):
    return '"' + s.replace('"', '""') + '"'


def clist(items):
    return "[" + "; ".join(items) + "]"


def cbool(b):
    return "true" if b else "false"


# ----------------------------------------------------------------------------------------------
# cfg expressions
# ----------------------------------------------------------------------------------------------

def parse_cfg(toks):
    """Parse the inside of #[cfg( ... )] / cfg!( ... ) into a Coq `cfgexp` term and a python tree."""
    pos = [0]

    def peek():
        return toks[pos[0]].text if pos[0] < len(toks) else None

    def eat(x=None):
        t = toks[pos[0]]
        if x is not None and t.text != x:
            raise TranslateError("cfg: expected %r got %r at line %d" % (x, t.text, t.line))
        pos[0] += 1
        return t

    def expr():
        t = eat()
        if t.kind != "ident":
            raise TranslateError("cfg: unexpected token %r line %d" % (t.text, t.line))
        name = t.text
        if name in ("all", "any", "not"):
            eat("(")
            items = []
            while peek() != ")":
                items.append(expr())
                if peek() == ",":
                    eat(",")
            eat(")")
            if name == "not":
                if len(items) != 1:
                    raise TranslateError("cfg: not() takes one argument")
                return ("not", items[0])
            return (name, items)
        if peek() == "=":
            eat("=")
            v = eat()
            if v.kind != "str":
                raise TranslateError("cfg: expected string")
            val = v.text[1:-1]
            if name == "target_arch":
                return ("arch", val)
            if name == "feature":
                return ("feature", val)
            if name == "target_feature":
                return ("target_feature", val)
            raise TranslateError("cfg: unknown key %s" % name)
        return ("flag", name)

    e = expr()
    if pos[0] != len(toks):
        raise TranslateError("cfg: trailing tokens at line %d" % toks[pos[0]].line)
    return e


def cfg_coq(e):
    if e is None:
        return "CTrue"
    k = e[0]
    if k == "arch":
        return "(CArch %s)" % cstr(e[1])
    if k == "feature":
        return "(CFeature %s)" % cstr(e[1])
    if k == "target_feature":
        return "(CTargetFeature %s)" % cstr(e[1])
    if k == "flag":
        return "(CFlag %s)" % cstr(e[1])
    if k == "all":
        return "(CAll %s)" % clist([cfg_coq(x) for x in e[1]])
    if k == "any":
        return "(CAny %s)" % clist([cfg_coq(x) for x in e[1]])
    if k == "not":
        return "(CNot %s)" % cfg_coq(e[1])
    raise TranslateError("cfg_coq: %r" % (e,))


def cfg_text(e):
    if e is None:
        return ""
    k = e[0]
    if k == "arch":
        return 'target_arch="%s"' % e[1]
    if k == "feature":
        return 'feature="%s"' % e[1]
    if k == "target_feature":
        return 'target_feature="%s"' % e[1]
    if k == "flag":
        return e[1]
    if k in ("all", "any"):
        return "%s(%s)" % (k, ",".join(cfg_text(x) for x in e[1]))
    return "not(%s)" % cfg_text(e[1])


def attr_cfg(attr_toks):
    """attr_toks: tokens inside #[ ... ].  Returns cfg tree if it is a cfg attribute else None."""
    if attr_toks and attr_toks[0].text == "cfg" and len(attr_toks) > 2 and attr_toks[1].text == "(":
        return parse_cfg(attr_toks[2:-1])
    return None


# ----------------------------------------------------------------------------------------------
# macro_rules! definitions
# ----------------------------------------------------------------------------------------------

def find_macro_defs(toks):
    """Return {name: [(pattern_tokens, body_tokens), ...]} for every macro_rules! in a token list."""
    out = {}
    i = 0
    while i < len(toks) - 3:
        if toks[i].text == "macro_rules" and toks[i + 1].text == "!":
            name = toks[i + 2].text
            if toks[i + 3].text != "{":
                raise TranslateError("macro_rules! %s: expected {" % name)
            end = match_close(toks, i + 3)
            arms = []
            j = i + 4
            while j < end:
                if toks[j].text != "(":
                    raise TranslateError("macro %s: arm pattern must start with ( at line %d" % (name, toks[j].line))
                pe = match_close(toks, j)
                if toks[pe + 1].text != "=>":
                    raise TranslateError("macro %s: expected => " % name)
                if toks[pe + 2].text != "{":
                    raise TranslateError("macro %s: expected { body" % name)
                be = match_close(toks, pe + 2)
                arms.append((toks[j + 1:pe], toks[pe + 3:be]))
                j = be + 1
                if j < end and toks[j].text == ";":
                    j += 1
            out[name] = arms
            i = end + 1
        else:
            i += 1
    return out


def parse_fn_items(body):
    """Split a macro arm body into fn items: returns list of dicts
       {attrs, name_tok, generics, params, body} (token lists)."""
    fns = []
    i = 0
    pending_attrs = []
    while i < len(body):
        t = body[i]
        if t.text == "#" and i + 1 < len(body) and body[i + 1].text == "[":
            e = match_close(body, i + 1)
            pending_attrs.append(body[i + 2:e])
            i = e + 1
            continue
        if t.text in ("pub", "unsafe", "const", "extern"):
            # qualifiers before fn
            quals = []
            j = i
            while body[j].text in ("pub", "unsafe", "const", "extern") or body[j].text == "(":
                if body[j].text == "(":
                    j = match_close(body, j) + 1
                    continue
                quals.append(body[j].text)
                j += 1
            if body[j].text != "fn":
                raise TranslateError("macro body: expected fn at line %d, got %r" % (body[j].line, body[j].text))
            name_tok = body[j + 1]
            k = j + 2
            generics = []
            if body[k].text == "<":
                depth = 0
                g0 = k
                while True:
                    if body[k].text == "<":
                        depth += 1
                    elif body[k].text == ">":
                        depth -= 1
                        if depth == 0:
                            break
                    k += 1
                generics = body[g0 + 1:k]
                k += 1
            if body[k].text != "(":
                raise TranslateError("macro body: expected ( after fn name at line %d" % body[k].line)
            pe = match_close(body, k)
            params = body[k + 1:pe]
            k = pe + 1
            ret = []
            while body[k].text != "{":
                ret.append(body[k])
                k += 1
            be = match_close(body, k)
            fns.append({"attrs": pending_attrs, "quals": quals, "name": name_tok.text, "generics": generics,
                        "params": params, "ret": ret, "body": body[k + 1:be], "line": name_tok.line})
            pending_attrs = []
            i = be + 1
            continue
        raise TranslateError("macro body: unexpected token %r at line %d" % (t.text, t.line))
    return fns


def parse_param_names(params):
    """`value: $t, a: &[$t], result: &mut [$t]` -> ['value','a','result'] (mapped to Coq params)."""
    names = []
    for part in split_top(params, ","):
        if not part:
            continue
        nm = part[0].text
        if nm not in PARAMS:
            raise TranslateError("unknown parameter name %r at line %d" % (nm, part[0].line))
        names.append(PARAMS[nm])
    return names


def parse_arg_list(args):
    out = []
    for part in split_top(args, ","):
        if not part:
            continue
        if len(part) != 1 or part[0].text not in PARAMS:
            raise TranslateError("argument is not a plain parameter: %r line %d" % (texts(part), part[0].line))
        out.append(PARAMS[part[0].text])
    return out


def parse_dim_arg(toks):
    s = texts(toks)
    if s == ["DIMS"]:
        return "DimConst"
    if s == ["a", ".", "len", "(", ")"]:
        return "DimALen"
    return "(DimOther %s)" % cstr(" ".join(s))


def has_target_feature_attr(attrs):
    for a in attrs:
        s = texts(a)
        if s and s[0] == "target_feature":
            # expected: target_feature ( $ ( enable = $feat , ) * )
            if s != ["target_feature", "(", "$", "(", "enable", "=", "$feat", ",", ")", "*", ")"]:
                raise TranslateError("unexpected target_feature attribute form: %r" % " ".join(s))
            return True
    return False


def translate_export_macro(name, arms):
    coq_arms = []
    py_arms = []
    for pat, body in arms:
        ptxt = texts(pat)
        has_feat = "features" in ptxt
        fns = []
        pyfns = []
        for f in parse_fn_items(body):
            if not f["name"].startswith("$"):
                raise TranslateError("export macro %s generates a fixed-name fn %s" % (name, f["name"]))
            gen = texts(f["generics"])
            const_generic = gen == ["const", "DIMS", ":", "usize"]
            if gen and not const_generic:
                raise TranslateError("export macro %s: unexpected generics %r" % (name, gen))
            params = parse_param_names(f["params"])
            b = f["body"]
            # body must be exactly:  $op::<_, $im, AutoMath>( dim, args... )
            bt = texts(b)
            if len(bt) < 10 or bt[1:4] != ["::", "<", "_"] or bt[4] != "," or bt[6] != "," or bt[8] != ">" or bt[9] != "(":
                raise TranslateError("export macro %s: body is not a single generic call: %r" % (name, " ".join(bt)))
            callee, regv, math = bt[0], bt[5], bt[7]
            ce = match_close(b, 9)
            if ce != len(b) - 1:
                raise TranslateError("export macro %s: trailing tokens after call" % name)
            parts = split_top(b[10:ce], ",")
            dim = parse_dim_arg(parts[0])
            args = []
            for p in parts[1:]:
                if len(p) != 1 or p[0].text not in PARAMS:
                    raise TranslateError("export macro %s: odd argument %r" % (name, texts(p)))
                args.append(PARAMS[p[0].text])
            tf = has_target_feature_attr(f["attrs"])
            fns.append("{| xf_namevar := %s; xf_const_generic := %s; xf_unsafe := %s; xf_target_feature := %s; "
                       "xf_params := %s; xf_callee := %s; xf_callee_reg := %s; xf_callee_math := %s; "
                       "xf_dim := %s; xf_args := %s |}" % (
                           cstr(f["name"][1:]), cbool(const_generic), cbool("unsafe" in f["quals"]), cbool(tf),
                           clist(params), cstr(callee), cstr(regv), cstr(math), dim, clist(args)))
            pyfns.append({"namevar": f["name"][1:], "const": const_generic, "target_feature": tf,
                          "params": params, "callee": callee, "reg": regv, "math": math, "dim": dim, "args": args})
        coq_arms.append("{| xa_has_features := %s; xa_fns := %s |}" % (cbool(has_feat), clist(fns)))
        py_arms.append({"has_features": has_feat, "fns": pyfns})
    return ("{| xm_name := %s; xm_arms := %s |}" % (cstr(name), clist(coq_arms)), py_arms)


def parse_len_expr(toks):
    s = texts(toks)
    if s == ["DIMS"]:
        return "LDIMS"
    if len(s) == 5 and s[1:] == [".", "len", "(", ")"] and s[0] in ("a", "b", "result"):
        return {"a": "LA", "b": "LB", "result": "LR"}[s[0]]
    raise TranslateError("assert operand not understood: %r (line %d)" % (" ".join(s), toks[0].line))


def translate_safe_macro(name, arms):
    if len(arms) != 1:
        raise TranslateError("safe macro %s: expected exactly one arm, got %d" % (name, len(arms)))
    pat, body = arms[0]
    # positional variables: `$x:ident ,` entries that are not preceded by `key =`
    positional = []
    parts = split_top(pat, ",")
    for p in parts:
        s = texts(p)
        if not s:
            continue
        if len(s) == 3 and s[0].startswith("$") and s[1] == ":" and s[2] == "ident":
            positional.append(s[0][1:])
        elif len(s) >= 3 and s[1] == "=":
            continue
        else:
            raise TranslateError("safe macro %s: odd pattern part %r" % (name, s))
    fns = []
    pyfns = []
    for f in parse_fn_items(body):
        gen = texts(f["generics"])
        const_generic = gen == ["const", "DIMS", ":", "usize"]
        if gen and not const_generic:
            raise TranslateError("safe macro %s: unexpected generics %r" % (name, gen))
        if "unsafe" in f["quals"]:
            raise TranslateError("safe macro %s: generated fn is declared unsafe" % name)
        params = parse_param_names(f["params"])
        b = f["body"]
        asserts, dasserts, dispatch = [], [], None
        i = 0
        while i < len(b):
            t = b[i]
            if t.text in ("assert_eq", "debug_assert_eq") and b[i + 1].text == "!":
                e = match_close(b, i + 2)
                ps = split_top(b[i + 3:e], ",")
                if len(ps) < 2:
                    raise TranslateError("safe macro %s: assert with <2 operands" % name)
                pair = "(%s, %s)" % (parse_len_expr(ps[0]), parse_len_expr(ps[1]))
                (asserts if t.text == "assert_eq" else dasserts).append(pair)
                i = e + 1
                if i < len(b) and b[i].text == ";":
                    i += 1
                continue
            if t.text in ("assert", "debug_assert", "assert_ne"):
                raise TranslateError("safe macro %s: assertion form %s! not understood" % (name, t.text))
            if t.text == "unsafe" and b[i + 1].text == "{":
                e = match_close(b, i + 1)
                inner = b[i + 2:e]
                it = texts(inner)
                # crate :: dispatch ! ( ... ) [;]
                if it[:4] != ["crate", "::", "dispatch", "!"] or it[4] != "(":
                    raise TranslateError("safe macro %s: unsafe block is not a crate::dispatch! call" % name)
                de = match_close(inner, 4)
                rest = it[de + 1:]
                if rest not in ([], [";"]):
                    raise TranslateError("safe macro %s: tokens after dispatch!: %r" % (name, rest))
                if dispatch is not None:
                    raise TranslateError("safe macro %s: two dispatch! calls" % name)
                dispatch = parse_dispatch_call(name, inner[5:de])
                i = e + 1
                continue
            raise TranslateError("safe macro %s: unexpected statement starting %r at line %d" % (name, t.text, t.line))
        if dispatch is None:
            raise TranslateError("safe macro %s: no dispatch! call" % name)
        fns.append("{| sf_namevar := %s; sf_const_generic := %s; sf_params := %s; sf_asserts := %s; "
                   "sf_debug_asserts := %s; sf_dispatch := %s |}" % (
                       cstr(f["name"][1:]), cbool(const_generic), clist(params), clist(asserts), clist(dasserts),
                       clist(["{| ds_slot := %s; ds_fnvar := %s; ds_turbofish_dims := %s; ds_args := %s |}" % (
                           d["slot"], cstr(d["fnvar"]), cbool(d["turbofish"]), clist(d["args"])) for d in dispatch])))
        pyfns.append({"namevar": f["name"][1:], "const": const_generic, "params": params, "asserts": asserts,
                      "debug_asserts": dasserts, "dispatch": dispatch})
    return ("{| sm_name := %s; sm_positional := %s; sm_fns := %s |}" % (
        cstr(name), clist([cstr(p) for p in positional]), clist(fns)), {"positional": positional, "fns": pyfns})


def parse_dispatch_call(mname, toks):
    """slot = $var[::<DIMS>] => (args)  repeated, no separators."""
    out = []
    i = 0
    while i < len(toks):
        s = toks[i].text
        if s not in SLOTS:
            raise TranslateError("safe macro %s: unknown dispatch slot %r" % (mname, s))
        if toks[i + 1].text != "=":
            raise TranslateError("safe macro %s: expected = after slot" % mname)
        var = toks[i + 2].text
        if not var.startswith("$"):
            raise TranslateError("safe macro %s: slot %s routine is not a macro variable: %r" % (mname, s, var))
        j = i + 3
        turbofish = False
        if toks[j].text == "::":
            if texts(toks[j:j + 4]) != ["::", "<", "DIMS", ">"]:
                raise TranslateError("safe macro %s: odd turbofish" % mname)
            turbofish = True
            j += 4
        if toks[j].text != "=>" or toks[j + 1].text != "(":
            raise TranslateError("safe macro %s: expected => ( after routine" % mname)
        e = match_close(toks, j + 1)
        args = parse_arg_list(toks[j + 2:e])
        out.append({"slot": SLOTS[s], "fnvar": var[1:], "turbofish": turbofish, "args": args})
        i = e + 1
    return out


# ----------------------------------------------------------------------------------------------
# macro invocations
# ----------------------------------------------------------------------------------------------

def walk_items(toks, on_invocation, mod_stack=None, cfg_stack=None):
    """Walk top-level items; recurse into `mod name { }`; call on_invocation(name, arg_toks, mods, cfgs, line)."""
    mod_stack = mod_stack or []
    cfg_stack = cfg_stack or []
    i = 0
    pending_cfg = None
    while i < len(toks):
        t = toks[i]
        if t.text == "#" and i + 1 < len(toks) and toks[i + 1].text in ("[", "!"):
            j = i + 1
            if toks[j].text == "!":
                j += 1
            e = match_close(toks, j)
            c = attr_cfg(toks[j + 1:e])
            if c is not None:
                pending_cfg = c if pending_cfg is None else ("all", [pending_cfg, c])
            i = e + 1
            continue
        if t.text == "macro_rules" and toks[i + 1].text == "!":
            e = match_close(toks, i + 3)
            i = e + 1
            pending_cfg = None
            continue
        if t.text in ("pub", "mod") or (t.text == "(" and i > 0 and toks[i - 1].text == "pub"):
            # pub [ (crate) ] mod name { ... }  | pub use ...; | pub fn ...
            j = i
            if toks[j].text == "pub":
                j += 1
                if toks[j].text == "(":
                    j = match_close(toks, j) + 1
            if toks[j].text == "mod" and toks[j + 2].text == "{":
                name = toks[j + 1].text
                e = match_close(toks, j + 2)
                walk_items(toks[j + 3:e], on_invocation, mod_stack + [name],
                           cfg_stack + ([pending_cfg] if pending_cfg is not None else []))
                pending_cfg = None
                i = e + 1
                continue
        if t.kind == "ident" and i + 2 < len(toks) and toks[i + 1].text == "!" and toks[i + 2].text in ("(", "{", "["):
            e = match_close(toks, i + 2)
            on_invocation(t.text, toks[i + 3:e], mod_stack,
                          cfg_stack + ([pending_cfg] if pending_cfg is not None else []), t.line)
            pending_cfg = None
            i = e + 1
            if i < len(toks) and toks[i].text == ";":
                i += 1
            continue
        # skip one item: up to ; or a balanced { }
        j = i
        while j < len(toks):
            if toks[j].text == ";":
                j += 1
                break
            if toks[j].text == "{":
                j = match_close(toks, j) + 1
                break
            if toks[j].text in ("(", "["):
                j = match_close(toks, j) + 1
                continue
            j += 1
        pending_cfg = None
        i = j


def parse_kv_invocation(args, line):
    """`key = value, key = value, ..., features = "a", "b"` and trailing positional idents."""
    kv = {}
    positional = []
    parts = split_top(args, ",")
    cur_key = None
    for p in parts:
        if not p:
            continue
        s = texts(p)
        if len(s) >= 3 and s[1] == "=" and p[0].kind == "ident":
            cur_key = s[0]
            if cur_key in kv:
                raise TranslateError("duplicate key %s at line %d" % (cur_key, line))
            kv[cur_key] = [p[2:]]
        elif cur_key == "features" and len(p) == 1 and p[0].kind == "str":
            kv["features"].append(p)
        elif len(p) == 1 and p[0].kind == "ident":
            positional.append(p[0].text)
            cur_key = None
        else:
            raise TranslateError("cannot parse macro argument %r at line %d" % (s, line))
    return kv, positional


def single_ident(kv, key, line):
    v = kv.get(key)
    if v is None or len(v) != 1 or len(v[0]) != 1 or v[0][0].kind != "ident":
        raise TranslateError("macro argument %s missing or not an identifier at line %d" % (key, line))
    return v[0][0].text


def gen_exports_and_macros(facts):
    exports = []
    macro_defs = {}
    for rel in EXPORT_FILES:
        toks = tokenize(read(rel))
        defs = find_macro_defs(toks)
        for k, v in defs.items():
            if k in macro_defs:
                raise TranslateError("macro %s defined twice" % k)
            macro_defs[k] = v

        def on_inv(name, args, mods, cfgs, line, rel=rel, defs=defs):
            if name not in defs:
                return
            kv, pos = parse_kv_invocation(args, line)
            if pos:
                raise TranslateError("%s:%d: positional arguments in export invocation" % (rel, line))
            ty = single_ident(kv, "ty", line)
            regn = single_ident(kv, "register", line)
            op = single_ident(kv, "op", line)
            if ty not in TYS:
                raise TranslateError("%s:%d: unknown element type %s" % (rel, line, ty))
            if regn not in REGS:
                raise TranslateError("%s:%d: unknown register %s" % (rel, line, regn))
            if op not in KERNELS:
                raise TranslateError("%s:%d: unknown generic routine %s" % (rel, line, op))
            feats = []
            for f in kv.get("features", []):
                if len(f) != 1 or f[0].kind != "str":
                    raise TranslateError("%s:%d: features must be string literals" % (rel, line))
                feats.append(f[0].text[1:-1])
            cfg = None
            for c in cfgs:
                cfg = c if cfg is None else ("all", [cfg, c])
            exports.append({"macro": name, "module": mods[-1] if mods else "", "modcfg": cfg_text(cfg),
                            "ty": ty, "reg": regn, "op": op, "xconst": single_ident(kv, "xconst", line),
                            "xany": single_ident(kv, "xany", line), "feats": feats, "file": rel, "line": line})

        walk_items(toks, on_inv)

    lines = ["(* GENERATED by tools/translate.py from danger/export_*.rs — do not edit. *)",
             "From Coq Require Import String List.", "From CF Require Import Model.Tables.",
             "Import ListNotations.", "Open Scope string_scope.", "",
             "Definition exports : list export := ["]
    rows = []
    for e in exports:
        rows.append("  {| e_macro := %s; e_module := %s; e_modcfg := %s; e_ty := %s; e_reg := %s; e_op := %s; "
                    "e_xconst := %s; e_xany := %s; e_feats := %s |}" % (
                        cstr(e["macro"]), cstr(e["module"]), cstr(e["modcfg"]), TYS[e["ty"]], REGS[e["reg"]],
                        KERNELS[e["op"]], cstr(e["xconst"]), cstr(e["xany"]), clist([cstr(f) for f in e["feats"]])))
    lines.append(";\n".join(rows))
    lines.append("].")
    write_if_changed(os.path.join(GEN, "GenExports.v"), "\n".join(lines) + "\n")
    facts["exports"] = exports

    xm = []
    facts["export_macros"] = {}
    for name in sorted(macro_defs):
        coq, py = translate_export_macro(name, macro_defs[name])
        xm.append("  " + coq)
        facts["export_macros"][name] = py
    return xm


def gen_safe(facts, export_macro_rows):
    entries = []
    macro_defs = {}
    for rel in SAFE_FILES:
        toks = tokenize(read(rel))
        # drop `#[cfg(test)] mod tests { ... }`
        defs = {}
        top = []
        i = 0
        # find test module start and cut
        cut = len(toks)
        for k in range(len(toks) - 6):
            if texts(toks[k:k + 6]) == ["#", "[", "cfg", "(", "test", ")"]:
                cut = k
                break
        toks = toks[:cut]
        defs = find_macro_defs(toks)
        for k, v in defs.items():
            if k in macro_defs:
                raise TranslateError("macro %s defined twice" % k)
            macro_defs[k] = v

        def on_inv(name, args, mods, cfgs, line, rel=rel, defs=defs):
            if name not in defs:
                raise TranslateError("%s:%d: invocation of unknown macro %s!" % (rel, line, name))
            kv, pos = parse_kv_invocation(args, line)
            tyv = kv.get("ty")
            if tyv is None or len(tyv[0]) != 1 or tyv[0][0].text not in TYS:
                raise TranslateError("%s:%d: bad ty" % (rel, line))
            if cfgs:
                raise TranslateError("%s:%d: cfg-gated safe invocation not supported" % (rel, line))
            entries.append({"macro": name, "ty": tyv[0][0].text, "const": single_ident(kv, "const_name", line),
                            "any": single_ident(kv, "any_name", line), "slots": pos, "file": rel, "line": line})

        walk_items(toks, on_inv)

    lines = ["(* GENERATED by tools/translate.py from safe_*.rs — do not edit. *)",
             "From Coq Require Import String List.", "From CF Require Import Model.Tables.",
             "Import ListNotations.", "Open Scope string_scope.", "",
             "Definition safe_entries : list safe_entry := ["]
    rows = []
    for e in entries:
        rows.append("  {| s_macro := %s; s_ty := %s; s_const := %s; s_any := %s; s_slots := %s |}" % (
            cstr(e["macro"]), TYS[e["ty"]], cstr(e["const"]), cstr(e["any"]), clist([cstr(s) for s in e["slots"]])))
    lines.append(";\n".join(rows))
    lines.append("].")
    write_if_changed(os.path.join(GEN, "GenSafe.v"), "\n".join(lines) + "\n")
    facts["safe_entries"] = entries

    sm = []
    facts["safe_macros"] = {}
    for name in sorted(macro_defs):
        coq, py = translate_safe_macro(name, macro_defs[name])
        sm.append("  " + coq)
        facts["safe_macros"][name] = py

    lines = ["(* GENERATED by tools/translate.py from the macro_rules! definitions — do not edit. *)",
             "From Coq Require Import String List.", "From CF Require Import Model.Tables.",
             "Import ListNotations.", "Open Scope string_scope.", "",
             "Definition export_macros : list export_macro := [", ";\n".join(export_macro_rows), "].", "",
             "Definition safe_macros : list safe_macro := [", ";\n".join(sm), "]."]
    write_if_changed(os.path.join(GEN, "GenMacros.v"), "\n".join(lines) + "\n")


# ----------------------------------------------------------------------------------------------
# dispatch.rs
# ----------------------------------------------------------------------------------------------

def parse_pexp(toks):
    """condition of an `if` in is_*_available: atoms joined by && / ||, parentheses, !."""
    pos = [0]

    def peek():
        return toks[pos[0]].text if pos[0] < len(toks) else None

    def eat(x=None):
        t = toks[pos[0]]
        if x is not None and t.text != x:
            raise TranslateError("pexp: expected %r got %r line %d" % (x, t.text, t.line))
        pos[0] += 1
        return t

    def atom():
        t = peek()
        if t == "(":
            eat("(")
            e = or_()
            eat(")")
            return e
        if t == "!":
            eat("!")
            return "(PxNot %s)" % atom()
        if t in ("true", "false"):
            eat()
            return "(PxLit %s)" % t
        if t == "cfg":
            eat("cfg")
            eat("!")
            i0 = pos[0]
            e = match_close(toks, i0)
            c = parse_cfg(toks[i0 + 1:e])
            pos[0] = e + 1
            return "(PxCt %s)" % cfg_coq(c)
        # path :: ... :: macro ! ( "feat" )
        path = []
        while True:
            tk = eat()
            if tk.kind != "ident":
                raise TranslateError("pexp: unexpected %r line %d" % (tk.text, tk.line))
            path.append(tk.text)
            if peek() == "::":
                eat("::")
                continue
            break
        eat("!")
        eat("(")
        s = eat()
        if s.kind != "str":
            raise TranslateError("pexp: feature detection macro needs a string literal")
        eat(")")
        return "(PxRt %s %s)" % (cstr(path[-1]), cstr(s.text[1:-1]))

    def and_():
        e = atom()
        while peek() == "&&":
            eat("&&")
            e = "(PxAnd %s %s)" % (e, atom())
        return e

    def or_():
        e = and_()
        while peek() == "||":
            eat("||")
            e = "(PxOr %s %s)" % (e, and_())
        return e

    e = or_()
    if pos[0] != len(toks):
        raise TranslateError("pexp: trailing tokens line %d" % toks[pos[0]].line)
    return e


def gen_dispatch(facts):
    rel = "cfavml/src/dispatch.rs"
    src = read(rel)
    toks = tokenize(src)
    defs = find_macro_defs(toks)
    if "dispatch" not in defs or len(defs["dispatch"]) != 1:
        raise TranslateError("dispatch.rs: expected exactly one dispatch! arm")
    pat, body = defs["dispatch"][0]

    # ---- pattern: $( slot = $fn:expr => ( $($arg:expr $(,)?)* ) )?  ... fallback = ...
    groups = []
    i = 0
    while i < len(pat):
        optional = False
        if pat[i].text == "$" and pat[i + 1].text == "(":
            e = match_close(pat, i + 1)
            inner = pat[i + 2:e]
            if pat[e + 1].text != "?":
                raise TranslateError("dispatch pattern: group not optional")
            optional = True
            nxt = e + 2
        else:
            # required group runs to the end
            inner = pat[i:]
            nxt = len(pat)
        s = texts(inner)
        if s[0] not in SLOTS or s[1] != "=" or s[3:5] != [":", "expr"] or s[5] not in ("=>",):
            raise TranslateError("dispatch pattern: cannot parse group %r" % " ".join(s))
        fnvar = s[2][1:]
        # ( $( $argN:expr $(,)? )* )
        m = re.search(r"\$\(\s*\$(\w+)\s*:\s*expr", " ".join(s[6:]).replace("$ (", "$("))
        if not m:
            raise TranslateError("dispatch pattern: cannot find arg variable in %r" % " ".join(s))
        groups.append({"slot": SLOTS[s[0]], "optional": optional, "fnvar": fnvar, "argvar": m.group(1)})
        i = nxt

    # ---- body: {{ ... }} — inner block
    if body[0].text != "{":
        raise TranslateError("dispatch body: expected inner block")
    be = match_close(body, 0)
    if be != len(body) - 1:
        raise TranslateError("dispatch body: trailing tokens")
    b = body[1:be]
    chain = []
    i = 0
    final = None
    while i < len(b):
        if b[i].text == "$" and b[i + 1].text == "(":
            e = match_close(b, i + 1)
            inner = b[i + 2:e]
            if b[e + 1].text != "?":
                raise TranslateError("dispatch body: repetition is not `?`")
            # inner: #[cfg(...)] if COND { return $fn($($arg, )*); }
            j = 0
            cfg = None
            while inner[j].text == "#":
                ae = match_close(inner, j + 1)
                c = attr_cfg(inner[j + 2:ae])
                if c is None:
                    raise TranslateError("dispatch body: non-cfg attribute")
                cfg = c if cfg is None else ("all", [cfg, c])
                j = ae + 1
            if inner[j].text != "if":
                raise TranslateError("dispatch body: expected if")
            k = j + 1
            while inner[k].text != "{":
                k += 1
            cond = inner[j + 1:k]
            ke = match_close(inner, k)
            if ke != len(inner) - 1:
                raise TranslateError("dispatch body: tokens after if block")
            blk = texts(inner[k + 1:ke])
            # return $fn ( $ ( $arg , ) * ) ;
            if not (blk[0] == "return" and blk[1].startswith("$") and blk[2] == "(" and blk[3:5] == ["$", "("]
                    and blk[5].startswith("$") and blk[6:] == [",", ")", "*", ")", ";"]):
                raise TranslateError("dispatch body: unexpected if-block %r" % " ".join(blk))
            fnvar, argvar = blk[1][1:], blk[5][1:]
            # cond: conj of $crate::dispatch::is_x_available()
            preds = []
            for part in split_top(cond, "&&"):
                ps = texts(part)
                if not (ps[:5] == ["$crate", "::", "dispatch", "::", ps[4]] and ps[5:] == ["(", ")"] and ps[4] in PREDS):
                    raise TranslateError("dispatch body: guard conjunct not understood: %r" % " ".join(ps))
                preds.append(PREDS[ps[4]])
            if "||" in texts(cond):
                raise TranslateError("dispatch body: disjunction in guard not supported")
            g = [x for x in groups if x["fnvar"] == fnvar]
            if len(g) != 1:
                raise TranslateError("dispatch body: fn variable %s not in pattern" % fnvar)
            chain.append({"slot": g[0]["slot"], "optional": True, "cfg": cfg, "guard": preds, "fnvar": fnvar,
                          "argvar": argvar})
            i = e + 2
            continue
        # final: $fallback_fn($($arg5, )*)
        blk = texts(b[i:])
        if not (blk[0].startswith("$") and blk[1] == "(" and blk[2:4] == ["$", "("] and blk[4].startswith("$")
                and blk[5:] == [",", ")", "*", ")"]):
            raise TranslateError("dispatch body: final call not understood: %r" % " ".join(blk))
        final = {"fnvar": blk[0][1:], "argvar": blk[4][1:]}
        g = [x for x in groups if x["fnvar"] == final["fnvar"]]
        if len(g) != 1:
            raise TranslateError("dispatch body: final fn variable not in pattern")
        chain.append({"slot": g[0]["slot"], "optional": g[0]["optional"], "cfg": None, "guard": [],
                      "fnvar": final["fnvar"], "argvar": final["argvar"]})
        break
    if final is None:
        raise TranslateError("dispatch body: no final call")

    # ---- predicates
    toks2, _ = toks, None
    preds = []
    i = 0
    n = len(toks)
    # scan for `pub fn is_*_available`
    while i < n:
        if toks[i].text == "fn" and toks[i + 1].text in PREDS:
            name = toks[i + 1].text
            # attributes before: walk back over pub / attrs
            j = i - 1
            while j >= 0 and toks[j].text in ("pub",):
                j -= 1
            cfg = None
            # collect attributes going backwards
            while j >= 0 and toks[j].text == "]":
                # find matching [
                depth = 0
                k = j
                while k >= 0:
                    if toks[k].text == "]":
                        depth += 1
                    elif toks[k].text == "[":
                        depth -= 1
                        if depth == 0:
                            break
                    k -= 1
                c = attr_cfg(toks[k + 1:j])
                if c is not None:
                    cfg = c if cfg is None else ("all", [c, cfg])
                j = k - 2 if toks[k - 1].text == "#" else k - 1
                if toks[k - 1].text != "#":
                    break
            k = i + 2
            while toks[k].text != "{":
                k += 1
            ret = texts(toks[i + 2:k])
            if ret != ["(", ")", "->", "bool"]:
                raise TranslateError("%s: unexpected signature" % name)
            e = match_close(toks, k)
            bodyt = toks[k + 1:e]
            arms = []
            q = 0
            default = None
            while q < len(bodyt):
                acfg = None
                while bodyt[q].text == "#":
                    ae = match_close(bodyt, q + 1)
                    c = attr_cfg(bodyt[q + 2:ae])
                    if c is None:
                        raise TranslateError("%s: non-cfg attribute in body" % name)
                    acfg = c if acfg is None else ("all", [acfg, c])
                    q = ae + 1
                if bodyt[q].text == "if" and acfg == ("flag", "cfavml_verif"):
                    # verification hook (off in every modelled build): skip the guarded statement
                    r = q + 1
                    while bodyt[r].text != "{":
                        r += 1
                    q = match_close(bodyt, r) + 1
                    continue
                if bodyt[q].text == "if":
                    r = q + 1
                    while bodyt[r].text != "{":
                        if bodyt[r].text == "(":
                            r = match_close(bodyt, r) + 1
                            continue
                        r += 1
                    cond = bodyt[q + 1:r]
                    re_ = match_close(bodyt, r)
                    if texts(bodyt[r + 1:re_]) != ["return", "true", ";"]:
                        raise TranslateError("%s: if-arm does not `return true;`" % name)
                    arms.append((acfg, parse_pexp(cond)))
                    q = re_ + 1
                    continue
                rest = texts(bodyt[q:])
                if rest in (["false"], ["true"]) and acfg is None:
                    default = rest[0] == "true"
                    q = len(bodyt)
                    continue
                raise TranslateError("%s: cannot parse body at line %d: %r" % (name, bodyt[q].line, rest[:6]))
            if default is None:
                raise TranslateError("%s: no default result" % name)
            preds.append({"pred": PREDS[name], "cfg": cfg, "arms": arms, "default": default, "name": name})
            i = e + 1
            continue
        i += 1
    if len(preds) != 4:
        raise TranslateError("dispatch.rs: expected 4 is_*_available functions, found %d" % len(preds))

    # ---- doc comment priority lists
    doc_x86, doc_arm = [], []
    section = None
    for ln in src.splitlines():
        s = ln.strip()
        if not s.startswith("///"):
            if s.startswith("macro_rules!"):
                break
            continue
        s = s[3:].strip()
        if s.startswith("####"):
            section = s.strip("# ").lower()
        elif s.startswith("- ") and section in ("x86", "arm"):
            (doc_x86 if section == "x86" else doc_arm).append(s[2:].strip())
        elif s.startswith("###"):
            section = None

    L = ["(* GENERATED by tools/translate.py from dispatch.rs — do not edit. *)",
         "From Coq Require Import String List.", "From CF Require Import Model.Tables.",
         "Import ListNotations.", "Open Scope string_scope.", "",
         "Definition dispatch_pattern : list dispatch_pattern_group := ["]
    L.append(";\n".join("  {| pg_slot := %s; pg_optional := %s; pg_fnvar := %s; pg_argvar := %s |}" % (
        g["slot"], cbool(g["optional"]), cstr(g["fnvar"]), cstr(g["argvar"])) for g in groups))
    L.append("].\n\nDefinition dispatch_chain : list chain_entry := [")
    L.append(";\n".join("  {| ce_slot := %s; ce_optional := %s; ce_cfg := %s; ce_guard := %s; ce_fnvar := %s; "
                        "ce_argvar := %s |}" % (c["slot"], cbool(c["optional"]), cfg_coq(c["cfg"]), clist(c["guard"]),
                                                cstr(c["fnvar"]), cstr(c["argvar"])) for c in chain))
    L.append("].\n\nDefinition pred_defs : list pred_def := [")
    L.append(";\n".join("  {| pd_pred := %s; pd_cfg := %s; pd_arms := %s; pd_default := %s |}" % (
        p["pred"], cfg_coq(p["cfg"]), clist(["(%s, %s)" % (cfg_coq(c), e) for c, e in p["arms"]]),
        cbool(p["default"])) for p in preds))
    L.append("].\n")
    L.append("Definition doc_priority_x86 : list string := %s." % clist([cstr(x) for x in doc_x86]))
    L.append("Definition doc_priority_arm : list string := %s." % clist([cstr(x) for x in doc_arm]))
    write_if_changed(os.path.join(GEN, "GenDispatch.v"), "\n".join(L) + "\n")
    facts["dispatch"] = {"pattern": groups,
                         "chain": [{**c, "cfg": cfg_text(c["cfg"])} for c in chain],
                         "preds": [{"pred": p["pred"], "cfg": cfg_text(p["cfg"]), "default": p["default"],
                                    "arms": [[cfg_text(c), e] for c, e in p["arms"]]} for p in preds],
                         "doc_x86": doc_x86, "doc_arm": doc_arm}


# ----------------------------------------------------------------------------------------------

_written = []


def write_if_changed(path, content):
    os.makedirs(os.path.dirname(path), exist_ok=True)
    old = None
    if os.path.exists(path):
        with open(path) as f:
            old = f.read()
    if old != content:
        with open(path, "w") as f:
            f.write(content)
        _written.append(path)


GENERATORS = []


def main():
    facts = {}
    os.makedirs(GEN, exist_ok=True)
    os.makedirs(BUILD, exist_ok=True)
    errors = []
    only = set(sys.argv[1:])
    steps = [("tables", lambda: gen_safe(facts, gen_exports_and_macros(facts))),
             ("dispatch", lambda: gen_dispatch(facts))]
    import importlib
    for modname in ("translate_more", "translate_feat", "translate_crate", "translate_utils", "translate_regs",
                    "translate_kernels", "translate_mem"):
        try:
            mod = importlib.import_module(modname)
        except ImportError:
            continue
        if hasattr(mod, "steps"):
            steps += mod.steps(facts, write_if_changed, GEN, REPO)
    for name, fn in steps:
        if only and name not in only:
            continue
        try:
            fn()
        except TranslateError as ex:
            errors.append({"step": name, "error": str(ex)})
        except (IndexError, KeyError, ValueError) as ex:
            errors.append({"step": name, "error": "parser crashed: %r" % (ex,)})
    facts["errors"] = errors
    facts["written"] = _written
    if only:
        # a partial run (some steps only) must not drop what the other steps recorded: merge into the existing file
        try:
            with open(os.path.join(BUILD, "gen_facts.json")) as f:
                prev = json.load(f)
            prev.update({k: v for k, v in facts.items() if k not in ("errors", "written")})
            prev["errors"] = [e for e in prev.get("errors", []) if e.get("step") not in only] + errors
            prev["written"] = _written
            facts = prev
        except (OSError, ValueError):
            pass
    tmp = os.path.join(BUILD, "gen_facts.json.tmp%d" % os.getpid())
    with open(tmp, "w") as f:
        json.dump(facts, f, indent=1, default=str)
    os.replace(tmp, os.path.join(BUILD, "gen_facts.json"))
    for e in errors:
        print("TRANSLATE-ERROR step=%s %s" % (e["step"], e["error"]))
    return 1 if errors else 0


if __name__ == "__main__":
    sys.exit(main())
