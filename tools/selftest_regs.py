#!/usr/bin/env python3
"""Self-test of the generated register model (C13, Props/C13Gen.v): one-token edits of the register back ends must break
the theorem of the edited method, by name.

Works on a scratch worktree of /repo (/tmp/genregs_wt) and on a PRIVATE copy of /verif/coq (.build/genregs/coqcopy):
/repo, /verif/coq/Gen and everybody else's builds are never touched.  Usage: python3 tools/selftest_regs.py [-k substr]"""
import os
import re
import shutil
import subprocess
import sys
import time

HERE = os.path.dirname(os.path.dirname(os.path.abspath(__file__)))    # the tree whose coq/ and tools/ are tested
VERIF = HERE
while not os.path.exists(os.path.join(VERIF, "lib.py")) and VERIF != "/":
    VERIF = os.path.dirname(VERIF)                                      # (a private development copy under .build/)
sys.path.insert(0, VERIF)
import lib  # noqa: E402

WT = "/tmp/genregs_wt"
CQ = os.path.join(VERIF, ".build", "genregs", "coqcopy")
D = "cfavml/src/danger/"

# (label, file, old, new, occurrence index, lemmas that must be among the broken ones; coqc stops at the first failing
#  lemma of a file, so only the first affected method of each (register, type) file is listed)
MUTATIONS = [
    ("delegation at the wrong element type: Avx2 u8 fmadd adds at u16", D + "impl_avx2.rs",
     "<Self as SimdRegister<u8>>::add(res, acc)", "<Self as SimdRegister<u16>>::add(res, acc)", 0, ["gen_Avx2_u8_fmadd_ok"]),
    ("immediate: srai_epi16::<8> -> ::<7> in the Avx2 i8 multiply", D + "impl_avx2.rs",
     "_mm256_srai_epi16::<8>(l1)", "_mm256_srai_epi16::<7>(l1)", 0, ["gen_Avx2_i8_mul_ok", "gen_Avx2_u8_mul_ok"]),
    ("operand order: blendv operands swapped in the Avx2 i64 max", D + "impl_avx2.rs",
     "_mm256_blendv_epi8(l2, l1, mask)", "_mm256_blendv_epi8(l1, l2, mask)", 0, ["gen_Avx2_i64_max_ok"]),
    ("intrinsic: add_epi8 -> adds_epi8 (saturating) in Avx2 i8 add", D + "impl_avx2.rs",
     "_mm256_add_epi8(l1, l2)", "_mm256_adds_epi8(l1, l2)", 0, ["gen_Avx2_i8_add_ok"]),
    ("shuffle immediate: _MM_SHUFFLE(2, 3, 0, 1) -> (2, 3, 1, 0) in the Avx2 i64 multiply", D + "impl_avx2.rs",
     "super::_MM_SHUFFLE(2, 3, 0, 1)", "super::_MM_SHUFFLE(2, 3, 1, 0)", 0, ["gen_Avx2_i64_mul_ok", "gen_Avx2_u64_mul_ok"]),
    ("delegation target: Avx2Fma f32 add delegates to Avx2 sub", D + "impl_avx2_fma.rs",
     "<Avx2 as SimdRegister<f32>>::add(l1, l2)", "<Avx2 as SimdRegister<f32>>::sub(l1, l2)", 0, ["gen_Avx2Fma_f32_add_ok"]),
    ("mask constant: 0xAAAA.. -> 0x5555.. in the Avx512 i8 multiply", D + "impl_avx512.rs",
     "_mm512_mask_blend_epi8(0xAAAAAAAAAAAAAAAA, even, odd)", "_mm512_mask_blend_epi8(0x5555555555555555, even, odd)", 0,
     ["gen_Avx512_i8_mul_ok", "gen_Avx512_u8_mul_ok"]),
    ("operand order: NEON vfmaq_f32(acc, l1, l2) -> (l1, l2, acc)", D + "impl_neon.rs",
     "vfmaq_f32(acc, l1, l2)", "vfmaq_f32(l1, l2, acc)", 0, ["gen_Neon_f32_fmadd_ok"]),
    ("signedness: NEON u16 max uses the signed instruction", D + "impl_neon.rs",
     "vmaxq_u16(l1, l2)", "vmaxq_s16(vreinterpretq_s16_u16(l1), vreinterpretq_s16_u16(l2))", 0, None),   # unknown intrinsic: translator error
    ("trait default: sum_to_register adds acc1 twice", D + "core_simd_api.rs",
     "Self::add(acc1, acc3)", "Self::add(acc1, acc1)", 0, ["gen_Avx2_i8_sum_to_register_ok", "gen_Neon_f32_sum_to_register_ok"]),
    ("macro: apply_dense! pairs lane b of l1 with lane a of l2", D + "core_simd_api.rs",
     "b: $op($l1.b, $l2.b),", "b: $op($l1.b, $l2.a),", 0, ["gen_Avx2_i8_add_dense_ok", "gen_Avx512_f32_add_dense_ok", "gen_Neon_u64_add_dense_ok"]),
    # ---- the scalar-loop fragment (Model/RustLoops.v): integer div, NEON i64/u64 mul / max / min ----
    ("loop body: Avx2 i8 div computes l2 / l1", D + "impl_avx2.rs",
     "result[idx] = l1.wrapping_div(l2);", "result[idx] = l2.wrapping_div(l1);", 0, ["gen_Avx2_i8_div_ok"]),
    ("store index: Avx2 i16 div writes result[idx ^ 1]", D + "impl_avx2.rs",
     "result[idx] = l1.wrapping_div(l2);", "result[idx ^ 1] = l1.wrapping_div(l2);", 1, ["gen_Avx2_i16_div_ok"]),
    ("lane count: Avx2 i8 div unpacks l2 as [i8; 16]", D + "impl_avx2.rs",
     "let l2_unpacked = mem::transmute::<_, [i8; 32]>(l2);", "let l2_unpacked = mem::transmute::<_, [i8; 16]>(l2);", 0, None),   # sizes differ: translator error
    ("lane count: Avx512 u8 div collects into [0u8; 32]", D + "impl_avx512.rs",
     "let mut result = [0u8; 64];", "let mut result = [0u8; 32];", 0, None),   # transmute to the register: sizes differ
    ("panic behaviour: Avx512 u16 div clamps the divisor (never panics)", D + "impl_avx512.rs",
     "result[idx] = l1.wrapping_div(l2);", "result[idx] = l1.wrapping_div(l2.max(1));", 5, ["gen_Avx512_u16_div_ok"]),
    ("zip operands swapped in the Avx512 i64 div loop", D + "impl_avx512.rs",
     "in zip(l1_unpacked, l2_unpacked).enumerate()", "in zip(l2_unpacked, l1_unpacked).enumerate()", 3, ["gen_Avx512_i64_div_ok"]),
    ("loop shape leaves the fragment: Avx512 i32 div skips lane 0 (must not silently become untranslated)", D + "impl_avx512.rs",
     "in zip(l1_unpacked, l2_unpacked).enumerate()", "in zip(l1_unpacked, l2_unpacked).enumerate().skip(1)", 2, ["gen_priority_covered"]),
    ("NEON i64 max uses core::cmp::min", D + "impl_neon.rs",
     "result[idx] = core::cmp::max(l1, l2);", "result[idx] = core::cmp::min(l1, l2);", 0, ["gen_Neon_i64_max_ok"]),
    ("NEON u64 mul adds", D + "impl_neon.rs",
     "result[idx] = AutoMath::mul(l1, l2);", "result[idx] = AutoMath::add(l1, l2);", 1, ["gen_Neon_u64_mul_ok"]),
    ("NEON i8 div multiplies (and no longer panics on a zero divisor)", D + "impl_neon.rs",
     "result[idx] = AutoMath::div(l1, l2);", "result[idx] = AutoMath::mul(l1, l2);", 0, ["gen_Neon_i8_div_ok"]),
    ("Fallback div delegates to Math::mul", D + "impl_fallback.rs",
     "AutoMath::div(l1, l2)", "AutoMath::mul(l1, l2)", 0, ["gen_Fallback_div_ok"]),
]


def sh(cmd, **kw):
    return subprocess.run(cmd, shell=True, capture_output=True, text=True, **kw)


def all_errors(log):
    out = []
    for m in re.finditer(r'File "\./([^"]+)", line (\d+), characters [\d-]+:\s*\n((?:.|\n)*?)(?:\n\n|\nmake)', log):
        path, line = m.group(1), int(m.group(2))
        name = None
        try:
            src = open(os.path.join(CQ, path)).read().splitlines()
            for i in range(min(line, len(src)) - 1, -1, -1):
                mm = re.match(r"\s*(Lemma|Theorem|Definition|Example)\s+([\w']+)", src[i])
                if mm:
                    name = mm.group(2)
                    break
        except OSError:
            pass
        out.append((name, path, line, m.group(3).strip().split("\n")[0][:100]))
    return out


def main():
    only = sys.argv[sys.argv.index("-k") + 1] if "-k" in sys.argv else None
    sh("git -C /repo worktree remove --force %s" % WT)
    r = sh("git -C /repo worktree add --detach %s HEAD" % WT)
    if r.returncode != 0:
        print(r.stdout, r.stderr)
        return 2
    shutil.rmtree(CQ, ignore_errors=True)
    with lib.build_lock():                      # a consistent snapshot of the shared tree
        shutil.copytree(os.path.join(HERE, "coq"), CQ)
    results = []
    try:
        base = sh("cd %s && python3 %s/tools/translate_regs.py --out=%s/Gen && timeout 1200 make -j12 Props/C13Gen.vo 2>&1 | tail -3" % (
            CQ, HERE, CQ))
        print("baseline (unchanged worktree):", "ok" if "Error" not in base.stdout else base.stdout)
        for label, rel, old, new, occ, expect in MUTATIONS:
            if only and only not in label:
                continue
            path = os.path.join(WT, rel)
            src = open(path).read()
            idx = -1
            for _ in range(occ + 1):
                idx = src.find(old, idx + 1)
            if idx < 0:
                print("MUTATION NOT APPLICABLE (source changed?):", label)
                results.append((label, False))
                continue
            open(path, "w").write(src[:idx] + new + src[idx + len(old):])
            t0 = time.time()
            tr = sh("VERIF_REPO=%s python3 %s/tools/translate_regs.py --out=%s/Gen" % (WT, HERE, CQ))
            terr = [ln for ln in tr.stdout.splitlines() if ln.startswith("TRANSLATE-ERROR")]
            mk = sh("cd %s && timeout 1500 make -k -j12 Props/C13Gen.vo 2>&1" % CQ)
            errs = all_errors(mk.stdout)
            lib.COQ = CQ
            first = lib.coq_first_error(mk.stdout)
            names = sorted({e[0] for e in errs if e[0]})
            ok = bool(terr) if expect is None else all(x in names for x in expect)
            print("\n=== %s\n    line %d of %s: `%s` -> `%s`" % (label, src[:idx].count("\n") + 1, rel, old, new))
            if terr:
                print("    translator:", terr[0][:300])
            print("    broken lemmas (%d): %s%s" % (len(names), ", ".join(names[:8]), " ..." if len(names) > 8 else ""))
            print("    lib.coq_first_error names:", first and first["lemma"], "(%s:%s)" % (first["file"], first["line"]) if first else "")
            print("    expected %s -> %s   [%.0fs]" % (expect if expect is not None else "a translator error", "CAUGHT" if ok else "MISSED", time.time() - t0))
            results.append((label, ok))
            open(path, "w").write(src)
    finally:
        sh("git -C /repo worktree remove --force %s" % WT)
        shutil.rmtree(CQ, ignore_errors=True)
    print("\nself-test: %d/%d mutations caught" % (sum(1 for _, ok in results if ok), len(results)))
    return 0 if all(ok for _, ok in results) else 1


if __name__ == "__main__":
    sys.exit(main())
