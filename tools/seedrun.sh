#!/bin/sh
# Run checks against a PATCHED COPY of the repository (never /repo itself):
#   tools/seedrun.sh <patch.diff> <ID> [<ID> ...]
# Meant for `vp run --with-repo -- sh tools/seedrun.sh ...` ($VP_RUN_REPO = snapshot of /repo's HEAD) or with REPO_COPY set.
set -u
PATCH="$1"; shift
COPY="${VP_RUN_REPO:-${REPO_COPY:?no repository copy}}"
git -C "$COPY" apply "$PATCH" || { echo "SEEDRUN: patch does not apply"; exit 2; }
export VERIF_REPO="$COPY"
python3 run.py --setup > setup.log 2>&1
tail -3 setup.log
for id in "$@"; do
  echo "=== $id"
  python3 run.py "$id" --tier quick > "run_$id.log" 2>&1
  echo "exit=$?"
  grep -E "VIOLATION|KNOWN-FINDING|tier=" "run_$id.log"
  for r in $(grep -o 'replay=[^ ]*' "run_$id.log" | cut -d= -f2); do
    python3 - "$r" <<'PY'
import json,sys
d=json.load(open(sys.argv[1]))
print("  replay key:", d.get("key"), "|", str(d.get("what"))[:300])
if d.get("kind")=="no-failing-input-found":
    for b in d.get("broken",[])[:3]: print("   broken:", b.get("kind"), b.get("name"), str(b.get("detail"))[:200])
PY
  done
done
