#!/usr/bin/env python3
"""selftest_kernels.py — mutation test of the kernel translator tie (tools/translate_kernels.py + Proofs/GenKernelsProofs.v).

For each mutation (a seeded patch file, or a textual edit listed in EDITS) a scratch COPY of lib.REPO/cfavml/src/danger
is made under /tmp/gk_wt/<label> (never /repo), the mutation is applied there, the translator is run on the copy into
.build/gk_mut/<label>/GenKernels.v, and every one of the 19 equality lemmas is re-checked separately against that file
(each lemma is cut out of Proofs/GenKernelsProofs.v and compiled on its own, so one failure does not hide the others).
Prints one line per mutation and writes .build/gk_mut/results.json.

usage: selftest_kernels.py [patch.diff ...]        (no arguments: the unpatched tree + the built-in EDITS)
"""
import json
import os
import re
import shutil
import subprocess
import sys

VERIF = os.path.dirname(os.path.dirname(os.path.abspath(__file__)))
REPO = os.environ.get("VERIF_REPO", "/repo")
OUT = os.path.join(VERIF, ".build", "gk_mut")
WT = "/tmp/gk_wt"
COQ = os.path.join(VERIF, "coq")

# (label, file, old text, new text, kernels whose term must change)
EDITS = [
    ("bound-tail-loop", "op_sum.rs", "while i < dims {", "while i < (dims - 1) {", ["sum"]),
    ("bound-dense-loop", "op_norm.rs", "let offset_from = dims % R::elements_per_dense();",
     "let offset_from = dims % R::elements_per_lane();", ["squared_norm"]),
    ("step-2L", "op_euclidean.rs", "i += R::elements_per_lane();", "i += 2 * R::elements_per_lane();", ["euclidean"]),
    ("swapped-operand", "op_euclidean.rs", "let diff = R::sub_dense(l1, l2);", "let diff = R::sub_dense(l2, l1);",
     ["euclidean"]),
    ("wrong-pointer", "op_dot_product.rs", "let l2 = R::load(b_ptr.add(i));", "let l2 = R::load(a_ptr.add(i));",
     ["dot_product", "cosine"]),
    ("extra-load-before-loop", "op_sum.rs", "    // Operate over dense lanes first.\n    let mut i = 0;",
     "    let mut i = 0;\n    let _first = R::load_dense(a_ptr.add(i));", ["sum"]),
    ("load-order", "op_vector_x_vector.rs",
     "        let l1 = R::load_dense(a_ptr.add(i));\n        let l2 = R::load_dense(b_ptr.add(i));\n        let res = R::add_dense(l1, l2);",
     "        let l2 = R::load_dense(b_ptr.add(i));\n        let l1 = R::load_dense(a_ptr.add(i));\n        let res = R::add_dense(l1, l2);",
     ["add_vector"]),
    ("second-loop-from-0", "op_max.rs",
     "    let mut max = R::max_to_register(max);\n", "    let mut max = R::max_to_register(max);\n    i = 0;\n",
     ["max_horizontal"]),
    ("missing-tail-loop", "op_min.rs",
     "    while i < dims {\n        let a = *a.get_unchecked(i);\n        min = M::cmp_min(min, a);\n\n        i += 1;\n    }\n",
     "", ["min_horizontal"]),
    ("store-offset", "op_vector_x_value.rs", "R::write(result_ptr.add(i), sum);\n\n        i += R::elements_per_lane();\n    }\n\n    while i < dims {\n        let a = *a.get_unchecked(i);\n        *result.get_unchecked_mut(i) = M::mul(a, value);",
     "R::write(result_ptr.add(i + 1), sum);\n\n        i += R::elements_per_lane();\n    }\n\n    while i < dims {\n        let a = *a.get_unchecked(i);\n        *result.get_unchecked_mut(i) = M::mul(a, value);",
     ["mul_value"]),
    ("wrong-accumulator", "op_cosine.rs", "norm_b = R::fmadd(l2, l2, norm_b);", "norm_b = R::fmadd(l2, l2, norm_a);",
     ["cosine"]),
    ("cosine-helper-branch", "op_cosine.rs", "        M::one()\n    } else {", "        M::zero()\n    } else {", ["cosine"]),
    ("initial-accumulator", "op_max.rs", "let mut max = R::filled_dense(M::min());", "let mut max = R::zeroed_dense();",
     ["max_horizontal"]),
    ("comment-and-debug-assert-only", "op_sum.rs",
     '    debug_assert_eq!(a.len(), dims, "Vector a does not match size `dims`");\n', "    // assertion removed\n", []),
]

KERNELS = ["sum", "dot_product", "squared_norm", "euclidean", "cosine", "max_horizontal", "min_horizontal",
           "max_vertical", "min_vertical", "add_vector", "sub_vector", "mul_vector", "div_vector",
           "max_value", "min_value", "add_value", "sub_value", "mul_value", "div_value"]


def sh(cmd, cwd=None, timeout=300):
    p = subprocess.run(cmd, cwd=cwd, stdout=subprocess.PIPE, stderr=subprocess.STDOUT, text=True, timeout=timeout)
    return p.returncode, p.stdout


def lemma_blocks():
    """The per-kernel lemmas live in one file per kernel family (GenKernelsArith/Reduce/MinMax/Cosine.v)."""
    head = ("From Coq Require Import List Arith Bool String.\n"
            "From CF Require Import Base.Mem Model.Tables Model.SimdApi Model.Kernels.\n"
            "From GKM Require Import GenKernels.\nImport ListNotations.\n")
    blocks = {}
    for fam in ("Arith", "Reduce", "MinMax", "Cosine"):
        src = open(os.path.join(COQ, "Proofs", "GenKernels%s.v" % fam)).read()
        pre, rest = src.split("Section Eq.", 1)
        if fam == "Cosine":
            # the pointwise monad laws (before the section) are needed by the cosine lemma
            m = re.search(r"\(\*\* \* Monad laws.*", pre, flags=re.S)
            head += (m.group(0) if m else "")
        for m in re.finditer(r"  Lemma (gen_\w+) .*?Qed\.", rest, flags=re.S):
            blocks[m.group(1)] = m.group(0)
    ctx = "Section Eq.\n  Context {T : Type}.\n  Variable R : SimdOps T.\n  Variable Mth : MathOps T.\n"
    return head + ctx, blocks


def probe(workdir, prelude, blocks, k):
    names = ["gen_%s_is_model" % k]
    if k == "cosine":
        names = ["gen_dot_product_is_model", "gen_cosine_helper_is_model", "gen_cosine_is_model"]
    body = prelude + "\n".join(blocks[n] for n in names) + "\nEnd Eq.\n"
    path = os.path.join(workdir, "Probe_%s.v" % k)
    with open(path, "w") as f:
        f.write(body)
    rc, out = sh(["timeout", "120", "coqc", "-noglob", "-Q", COQ, "CF", "-Q", workdir, "GKM", path])
    if rc == 0:
        return "equal", ""
    m = re.search(r"Error:\s*(.*)", out, flags=re.S)
    msg = (m.group(1) if m else out).strip().splitlines()
    return "DIFFERENT", " ".join(x.strip() for x in msg[:3])[:200]


def run_one(label, mutate):
    src = os.path.join(WT, label)
    shutil.rmtree(src, ignore_errors=True)
    os.makedirs(os.path.join(src, "cfavml", "src"))
    shutil.copytree(os.path.join(REPO, "cfavml", "src", "danger"), os.path.join(src, "cfavml", "src", "danger"))
    note = mutate(src)
    work = os.path.join(OUT, label)
    shutil.rmtree(work, ignore_errors=True)
    os.makedirs(work)
    gen = os.path.join(work, "GenKernels.v")
    rc, out = sh([sys.executable, os.path.join(VERIF, "tools", "translate_kernels.py"), "--repo", src, "--out", gen])
    terr = [ln for ln in out.splitlines() if ln.startswith("TRANSLATE-ERROR")]
    res = {"label": label, "note": note, "translator_rc": rc, "translator_error": terr[0][:400] if terr else None,
           "kernels": {}}
    rc2, out2 = sh(["timeout", "120", "coqc", "-noglob", "-Q", COQ, "CF", "-Q", work, "GKM", gen])
    res["gen_compiles"] = rc2 == 0
    if rc2 != 0:
        res["gen_error"] = out2[-400:]
    prelude, blocks = lemma_blocks()
    if rc2 == 0:
        for k in KERNELS:
            st, msg = probe(work, prelude, blocks, k)
            res["kernels"][k] = st
            if st != "equal":
                res.setdefault("messages", {})[k] = msg
        # the real file, whole (what `make Props/C07Gen.vo` does)
        full = os.path.join(work, "GenKernelsProofs.v")
        with open(full, "w") as f:
            f.write(open(os.path.join(COQ, "Proofs", "GenKernelsProofs.v")).read().replace(
                "From CF Require Import Gen.GenKernels.", "From GKM Require Import GenKernels."))
        rc3, out3 = sh(["timeout", "200", "coqc", "-noglob", "-Q", COQ, "CF", "-Q", work, "GKM", full])
        res["proofs_file_compiles"] = rc3 == 0
    shutil.rmtree(src, ignore_errors=True)
    return res


def main():
    os.makedirs(OUT, exist_ok=True)
    jobs = []
    patches = sys.argv[1:]
    jobs.append(("clean", lambda src: "unpatched copy", []))
    for p in patches:
        label = os.path.basename(os.path.dirname(os.path.abspath(p))) or os.path.basename(p)

        def mut(src, p=p):
            rc, out = sh(["git", "apply", "-p1", os.path.abspath(p)], cwd=src)
            if rc != 0:
                raise RuntimeError("patch %s does not apply: %s" % (p, out))
            files = re.findall(r"^\+\+\+ b/(\S+)", open(p).read(), flags=re.M)
            return "patch touching " + ", ".join(files)
        jobs.append((label, mut, None))
    if not patches:
        for label, fname, old, new, expect in EDITS:
            def mut(src, fname=fname, old=old, new=new):
                path = os.path.join(src, "cfavml", "src", "danger", fname)
                s = open(path).read()
                if s.count(old) < 1:
                    raise RuntimeError("edit text not found in %s" % fname)
                with open(path, "w") as f:
                    f.write(s.replace(old, new, 1))
                return "%s: %r -> %r" % (fname, old[:50], new[:50])
            jobs.append((label, mut, expect))
    results = []
    bad = 0
    for label, mut, expect in jobs:
        r = run_one(label, mut)
        diff = sorted(k for k, v in r["kernels"].items() if v != "equal")
        untr = r["translator_error"]
        r["different"] = diff
        r["expected_different"] = expect
        line = "%-32s translator=%s different=%s proofs_file=%s" % (
            label, "ok" if r["translator_rc"] == 0 else "UNTRANSLATABLE", ",".join(diff) or "-",
            {True: "compiles", False: "FAILS", None: "n/a"}[r.get("proofs_file_compiles")])
        if expect is not None and r["translator_rc"] == 0 and sorted(expect) != diff:
            line += "   <-- EXPECTED " + (",".join(sorted(expect)) or "-")
            bad += 1
        print(line, flush=True)
        if untr:
            print("    " + untr[:300])
        results.append(r)
    with open(os.path.join(OUT, "results.json"), "w") as f:
        json.dump(results, f, indent=1)
    shutil.rmtree(WT, ignore_errors=True)
    return 1 if bad else 0


if __name__ == "__main__":
    sys.exit(main())
