#!/usr/bin/env python3
"""translate_utils.py — /repo/cfavml-utils -> coq/Gen/GenConstsUtils.v + .build/gen_facts_utils.json  (tie 1 for C16/C17)

Reads the literal constants and the *form* of the few one-line decisions the hand models of
`aligned_buffer.rs`, `threadpool.rs` and `pinning.rs` are parametric in (DESIGN §2.3, row GenConsts):

  aligned_buffer.rs   chunk array length, `align(N)`, the modulus of the size assert, the divisor of
                      `num_per_chunk`, the form of the chunk count (`+ K` unchecked / `.checked_add(K).expect(msg)` /
                      no addend), the fill byte, the view length expression, the `allocated_size` expression,
                      `#[derive(Clone)]`
  threadpool.rs       TRUE_VALUES, the env-var names, the form of the requested thread count
                      (`min(cfg, P)` / `max(cfg, P)` / `match cfg { 0 => P, n => min(n, P) }`), the polarity of the
                      pinning and cache flags, the fall-back of a failed parse, the feature-gated compat variables
  pinning.rs          the two early returns and whether the out-of-range index panics under cfg!(debug_assertions)

Every item is matched against the small set of shapes the model has a variant for.  Anything else is recorded in
`errors` (a broken tie: the check then reports it and leans on the correspondence to look for a failing input) and the
constant falls back to the value of the pinned commit so that the Coq side still builds.
"""
import json
import os
import re
import sys

sys.path.insert(0, os.path.dirname(os.path.abspath(__file__)))
import rustlex  # noqa: E402

VERIF = os.path.dirname(os.path.dirname(os.path.abspath(__file__)))
REPO = os.environ.get("VERIF_REPO", "/repo")
BUILD = os.path.join(VERIF, ".build")
GEN = os.path.join(VERIF, "coq", "Gen")
UTILS = os.path.join(REPO, "cfavml-utils")


class Facts:
    def __init__(self):
        self.v = {}
        self.errors = []

    def err(self, step, msg):
        self.errors.append({"step": step, "error": msg})


def norm(toks):
    """Tokens joined by single blanks; line continuations inside string literals are removed."""
    return " ".join(re.sub(r"\\\n\s*", "", t.text) if t.kind == "str" else t.text for t in toks)


def fn_body(toks, name):
    """Token list of the body `{ ... }` (exclusive) of `fn name`."""
    for i in range(len(toks) - 1):
        if toks[i].text == "fn" and toks[i + 1].text == name:
            j = i + 2
            depth = 0
            while j < len(toks):
                t = toks[j].text
                if t in ("(", "["):
                    depth += 1
                elif t in (")", "]"):
                    depth -= 1
                elif t == "{" and depth == 0:
                    k = rustlex.match_close(toks, j)
                    return toks[j + 1:k]
                elif t == ";" and depth == 0:
                    break
                j += 1
    raise rustlex.TranslateError("fn %s not found" % name)


def unstr(tok):
    """Value of a plain Rust string literal token (the escapes used in these files only)."""
    s = tok[1:-1]
    s = re.sub(r"\\\n\s*", "", s)
    return s.replace('\\"', '"').replace("\\\\", "\\")


def num(s):
    return int(re.sub(r"(_|[iu](8|16|32|64|128|size))", "", s), 0)


# ------------------------------------------------------------------------------------------------
# aligned_buffer.rs
# ------------------------------------------------------------------------------------------------

def aligned_buffer(f):
    step = "aligned_buffer"
    d = {"chunk_bytes": 64, "align": 64, "assert_mod": 64, "div": 64, "plus": 1, "checked": False,
         "expect_msg": "", "fill": 0, "derive_clone": True}
    try:
        src = open(os.path.join(UTILS, "src", "aligned_buffer.rs")).read()
        # the #[cfg(test)] module is not part of the library
        src_lib = src.split("#[cfg(test)]")[0]
        toks = rustlex.tokenize(src_lib)
    except (OSError, rustlex.TranslateError) as ex:
        f.err(step, "cannot read/tokenize aligned_buffer.rs: %s" % ex)
        f.v["aligned_buffer"] = d
        return
    n = norm(toks)

    # --- the chunk type: attributes + struct AlignedBytes([u8; M]);
    m = re.search(r"((?:# \[ [^\]]*(?:\( [^\]]*\) )?\] )*)struct AlignedBytes \( \[ u8 ; (\w+) \] \) ;", n)
    if not m:
        f.err(step, "chunk type: `struct AlignedBytes([u8; N]);` not found")
    else:
        d["chunk_bytes"] = num(m.group(2))
        attrs = m.group(1)
        r = re.search(r"# \[ repr \( ([^\]]*) \) \]", attrs)
        if not r:
            d["align"] = 1          # no repr: alignment of [u8; N]
            f.err(step, "chunk type has no #[repr(..)] attribute (alignment of [u8; N] is 1)")
        else:
            a = re.search(r"align \( (\w+) \)", r.group(1))
            d["align"] = num(a.group(1)) if a else 1
            if not a:
                f.err(step, "chunk type repr has no align(N): %s" % r.group(1))
            if not re.search(r"(^| )C( |$)", r.group(1)):
                f.err(step, "chunk type repr is not repr(C, ..): %s" % r.group(1))

    # --- Default for AlignedBytes: Self([F; M])
    m = re.search(r"impl Default for AlignedBytes \{ fn default \( \) -> Self \{ Self \( \[ (\w+) ; (\w+) \] \) \} \}", n)
    if not m:
        f.err(step, "Default for AlignedBytes: `Self([F; N])` not found")
    else:
        d["fill"] = num(m.group(1))
        if num(m.group(2)) != d["chunk_bytes"]:
            f.err(step, "Default array length %s differs from the chunk type's %d" % (m.group(2), d["chunk_bytes"]))

    # --- derive(Clone) on AlignedBuffer, no manual impl
    m = re.search(r"# \[ derive \( ([^\]]*) \) \] pub struct AlignedBuffer < T > \{ len : usize , allocated_size : usize , "
                  r"buffer : Box < \[ AlignedBytes \] > , inner : PhantomData < T > , \}", n)
    if not m:
        f.err(step, "struct AlignedBuffer: fields/derive changed (expected len, allocated_size, buffer: Box<[AlignedBytes]>, inner)")
        d["derive_clone"] = "derive ( Clone" in n
    else:
        d["derive_clone"] = "Clone" in m.group(1).split(" ")
    if re.search(r"impl < [^>]* > Clone for AlignedBuffer", n):
        f.err(step, "manual `impl Clone for AlignedBuffer` (model has the derive)")
    if not d["derive_clone"]:
        f.err(step, "AlignedBuffer no longer derives Clone")

    # --- zeroed
    try:
        z = norm(fn_body(toks, "zeroed"))
    except rustlex.TranslateError as ex:
        f.err(step, str(ex))
        z = ""
    m = re.search(r"assert_eq ! \( (\w+) % mem :: size_of :: < T > \( \) , 0 ,", z)
    if not m:
        f.err(step, "zeroed: `assert_eq!(N % mem::size_of::<T>(), 0, ..)` not found")
    else:
        d["assert_mod"] = num(m.group(1))
    m = re.search(r"let num_per_chunk = (\w+) / mem :: size_of :: < T > \( \) ;", z)
    if not m:
        f.err(step, "zeroed: `let num_per_chunk = N / mem::size_of::<T>();` not found")
    else:
        d["div"] = num(m.group(1))
    m = re.search(r"let num_chunks = (.*?) ;", z)
    if not m:
        f.err(step, "zeroed: `let num_chunks = ..;` not found")
    else:
        e = m.group(1)
        base = r"(?:\( len / num_per_chunk \)|len / num_per_chunk)"
        if re.fullmatch(base, e):
            d["plus"], d["checked"] = 0, False
        elif re.fullmatch(base + r" \+ (\w+)", e):
            d["plus"], d["checked"] = num(re.fullmatch(base + r" \+ (\w+)", e).group(1)), False
        elif re.fullmatch(r"\( len / num_per_chunk \) \. checked_add \( (\w+) \) \. expect \( (\"(?:\\.|[^\"\\])*\") \)", e):
            mm = re.fullmatch(r"\( len / num_per_chunk \) \. checked_add \( (\w+) \) \. expect \( (\"(?:\\.|[^\"\\])*\") \)", e)
            d["plus"], d["checked"], d["expect_msg"] = num(mm.group(1)), True, unstr(mm.group(2))
        else:
            f.err(step, "zeroed: unrecognised chunk-count expression `%s`" % e)
    if not re.search(r"let mut buffer = Vec :: with_capacity \( num_chunks \) ; "
                     r"buffer \. extend \( std :: iter :: repeat \( AlignedBytes :: default \( \) \) \. take \( num_chunks \) \) ; "
                     r"let buffer = buffer \. into_boxed_slice \( \) ;", z):
        f.err(step, "zeroed: storage construction changed (expected with_capacity(num_chunks) + extend(repeat(default).take(num_chunks)) + into_boxed_slice)")
    if not re.search(r"Self \{ len , allocated_size : num_per_chunk \* buffer \. len \( \) , buffer , inner : PhantomData , \}", z):
        f.err(step, "zeroed: result construction changed (expected len, allocated_size: num_per_chunk * buffer.len())")

    # --- views
    for name, pat in [
        ("as_slice", r"let ptr = self \. buffer \. as_ptr \( \) ; unsafe \{ std :: slice :: from_raw_parts \( ptr \. cast \( \) , self \. len \) \}"),
        ("as_mut_slice", r"let ptr = self \. buffer \. as_mut_ptr \( \) ; unsafe \{ std :: slice :: from_raw_parts_mut \( ptr \. cast \( \) , self \. len \) \}"),
        ("as_mut_ptr", r"let ptr = self \. buffer \. as_mut_ptr \( \) ; ptr \. cast \( \)"),
        ("copy_from_slice", r"let slice = self \. as_mut_slice \( \) ; slice \. copy_from_slice \( data \) ;"),
        ("allocated_size", r"self \. allocated_size"),
        ("deref", r"self \. as_slice \( \)"),
    ]:
        try:
            b = norm(fn_body(toks, name))
        except rustlex.TranslateError as ex:
            f.err(step, str(ex))
            continue
        if not re.fullmatch(pat, b):
            f.err(step, "%s: body changed: `%s`" % (name, b[:160]))
    f.v["aligned_buffer"] = d


# ------------------------------------------------------------------------------------------------
# threadpool.rs / pinning.rs / Cargo.toml
# ------------------------------------------------------------------------------------------------

CFG = r"config_num_threads \( \)"
PHY = r"num_cpus :: get_physical \( \)"


def threadpool(f):
    step = "threadpool"
    d = {"true_values": ["1", "true", "TRUE"], "var_num_threads": "CFAVML_NUM_THREADS",
         "var_no_pinning": "CFAVML_NO_PINNING", "var_no_cache": "CFAVML_NO_CACHE_THREADPOOL",
         "compat_vars": ["OMP_NUM_THREADS", "OPENBLAS_NUM_THREADS"],
         "combine": "min", "zero_default": False, "pin_when_not_flag": True, "nocache_disables": True,
         "requested_form": "min(cfg, P)"}
    try:
        toks = rustlex.tokenize(open(os.path.join(UTILS, "src", "threadpool.rs")).read())
    except (OSError, rustlex.TranslateError) as ex:
        f.err(step, "cannot read/tokenize threadpool.rs: %s" % ex)
        f.v["threadpool"] = d
        return
    n = norm(toks)

    # TRUE_VALUES + cast_bool
    m = re.search(r"static TRUE_VALUES : & \[ & str \] = & \[ ([^\]]*) \] ;", n)
    if not m:
        f.err(step, "cast_bool: TRUE_VALUES table not found")
    else:
        d["true_values"] = [unstr(s) for s in re.findall(r'"(?:\\.|[^"\\])*"', m.group(1))]
    try:
        b = norm(fn_body(toks, "cast_bool"))
        if not re.fullmatch(r"static TRUE_VALUES : & \[ & str \] = & \[ [^\]]* \] ; TRUE_VALUES \. contains \( & value \)", b):
            f.err(step, "cast_bool: body changed: `%s`" % b[:160])
        b = norm(fn_body(toks, "config_bool"))
        if not re.fullmatch(r"std :: env :: var \( env \) \. map \( \| v \| cast_bool \( & v \) \) \. unwrap_or_default \( \)", b):
            f.err(step, "config_bool: body changed: `%s`" % b[:160])
    except rustlex.TranslateError as ex:
        f.err(step, str(ex))

    # create_pool
    try:
        b = norm(fn_body(toks, "create_pool"))
    except rustlex.TranslateError as ex:
        f.err(step, str(ex))
        b = ""
    m = re.search(r"let num_threads = (.*?) ; let no_pinning", b)
    if not m:
        f.err(step, "create_pool: `let num_threads = ..;` not found")
    else:
        e = m.group(1)
        d["requested_form"] = e
        mm = re.fullmatch(r"std :: cmp :: (min|max) \( (?:%s , %s|%s , %s) \)" % (CFG, PHY, PHY, CFG), e)
        m2 = re.fullmatch(r"match %s \{ 0 => %s , (\w+) => std :: cmp :: (min|max) \( (?:(\w+) , %s|%s , (\w+)) \) ,? \}"
                          % (CFG, PHY, PHY, PHY), e)
        if mm:
            d["combine"], d["zero_default"] = mm.group(1), False
        elif m2 and (m2.group(3) or m2.group(4)) == m2.group(1):
            d["combine"], d["zero_default"] = m2.group(2), True
        else:
            f.err(step, "create_pool: unrecognised thread-count expression `%s`" % e)
    m = re.search(r"let no_pinning = config_bool \( (\"[^\"]*\") \) ;", b)
    if not m:
        f.err(step, "create_pool: `let no_pinning = config_bool(\"..\")` not found")
    else:
        d["var_no_pinning"] = unstr(m.group(1))
    m = re.search(r"rayon :: ThreadPoolBuilder :: new \( \) \. num_threads \( num_threads \) \. start_handler \( move \| thread_id \| \{ "
                  r"if (! )?no_pinning \{ crate :: pinning :: pin_current \( thread_id \) ; \} \} \) "
                  r"\. build \( \) \. expect \( \"[^\"]*\" \)$", b)
    if not m:
        f.err(step, "create_pool: builder chain changed: `%s`" % b[-300:])
    else:
        d["pin_when_not_flag"] = bool(m.group(1))

    # get_or_init_pool
    try:
        b = norm(fn_body(toks, "get_or_init_pool"))
    except rustlex.TranslateError as ex:
        f.err(step, str(ex))
        b = ""
    m = re.fullmatch(r"static SHARED_THREADPOOL : OnceLock < Option < rayon :: ThreadPool >> = OnceLock :: new \( \) ; "
                     r"let global_pool = SHARED_THREADPOOL \. get_or_init \( \|\| \{ "
                     r"let no_cache = config_bool \( (\"[^\"]*\") \) ; "
                     r"if (! )?no_cache \{ (None|Some \( create_pool \( \) \)) \} else \{ (None|Some \( create_pool \( \) \)) \} "
                     r"\} \) \. as_ref \( \) ; "
                     r"match global_pool \{ None => MaybeBorrowedPool :: Owned \( create_pool \( \) \) , "
                     r"Some \( pool \) => MaybeBorrowedPool :: Borrowed \( pool \) , \}", b)
    if not m or m.group(3) == m.group(4):
        f.err(step, "get_or_init_pool: body changed: `%s`" % b[:400])
    else:
        d["var_no_cache"] = unstr(m.group(1))
        # the flag disables the cache iff (flag true -> None)
        then_none = m.group(3) == "None"
        d["nocache_disables"] = then_none != bool(m.group(2))

    # config_num_threads
    try:
        b = norm(fn_body(toks, "config_num_threads"))
    except rustlex.TranslateError as ex:
        f.err(step, str(ex))
        b = ""
    blk = (r"if let Ok \( value \) = std :: env :: var \( (\"[^\"]*\") \) \{ return value \. parse \( \) \. unwrap_or_else \( \| _ \| \{ "
           r"load_debug \( format ! \( \"(?:\\.|[^\"\\])*\" \) \) ; " + PHY + r" \} \) ; \}")
    m = re.fullmatch(blk + r" # \[ cfg \( feature = \"env-var-compat\" \) \] " + blk
                     + r" # \[ cfg \( feature = \"env-var-compat\" \) \] " + blk + " " + PHY, b)
    if not m:
        f.err(step, "config_num_threads: body changed: `%s`" % b[:300])
    else:
        d["var_num_threads"] = unstr(m.group(1))
        d["compat_vars"] = [unstr(m.group(2)), unstr(m.group(3))]
    f.v["threadpool"] = d


def pinning(f):
    step = "pinning"
    d = {"oob_debug_panics": True}
    try:
        toks = rustlex.tokenize(open(os.path.join(UTILS, "src", "pinning.rs")).read())
        n = norm(toks)
        b = norm(fn_body(toks, "pin_current"))
    except (OSError, rustlex.TranslateError) as ex:
        f.err(step, "cannot read pinning.rs / pin_current: %s" % ex)
        f.v["pinning"] = d
        return
    if not re.search(r"static AVAILABLE_CPUS : OnceLock < Vec < CoreId >> = OnceLock :: new \( \) ;", n):
        f.err(step, "AVAILABLE_CPUS static changed")
    m = re.fullmatch(r"let available = AVAILABLE_CPUS \. get_or_init \( \|\| core_affinity :: get_core_ids \( \) \. unwrap_or_default \( \) \) ; "
                     r"let num_available = available \. len \( \) ; "
                     r"if num_available == 0 \{ return false ; \} "
                     r"if num_available <= cpu_id_idx \{ (if cfg ! \( debug_assertions \) \{ panic ! \( [^;]* \) ; \} )?return false ; \} "
                     r"let cpu_id = available \[ cpu_id_idx \] ; core_affinity :: set_for_current \( cpu_id \)", b)
    if not m:
        f.err(step, "pin_current: body changed: `%s`" % b[:400])
    else:
        d["oob_debug_panics"] = bool(m.group(1))
    f.v["pinning"] = d


def cargo(f):
    d = {"features": [], "default_features": []}
    try:
        txt = open(os.path.join(UTILS, "Cargo.toml")).read()
        sec = re.search(r"^\[features\]\s*\n(.*?)(?=^\[|\Z)", txt, flags=re.S | re.M)
        if sec:
            for ln in sec.group(1).splitlines():
                m = re.match(r"\s*([\w-]+)\s*=\s*\[(.*?)\]", ln)
                if m:
                    d["features"].append(m.group(1))
                    if m.group(1) == "default":
                        d["default_features"] = re.findall(r'"([^"]*)"', m.group(2))
    except OSError as ex:
        f.err("cargo", str(ex))
    f.v["cargo"] = d


# ------------------------------------------------------------------------------------------------
# output
# ------------------------------------------------------------------------------------------------

def coq_string(s):
    if any(ord(c) > 126 or ord(c) < 32 for c in s):
        raise rustlex.TranslateError("non-printable character in string constant %r" % s)
    return '"' + s.replace('"', '""') + '"'


def coq_bool(b):
    return "true" if b else "false"


def render(f):
    a, t, p, c = f.v["aligned_buffer"], f.v["threadpool"], f.v["pinning"], f.v["cargo"]
    L = []
    L.append("(* GENERATED by tools/translate_utils.py from /repo/cfavml-utils — do not edit. *)")
    L.append("From Coq Require Import ZArith String List Bool.")
    L.append("Import ListNotations.")
    L.append("Open Scope Z_scope.")
    L.append("Open Scope string_scope.")
    L.append("")
    L.append("(* aligned_buffer.rs *)")
    L.append("Definition ab_chunk_bytes : Z := %d.   (* struct AlignedBytes([u8; N]) *)" % a["chunk_bytes"])
    L.append("Definition ab_align : Z := %d.         (* #[repr(C, align(N))] *)" % a["align"])
    L.append("Definition ab_assert_mod : Z := %d.    (* assert_eq!(N %% size_of::<T>(), 0) *)" % a["assert_mod"])
    L.append("Definition ab_div : Z := %d.           (* num_per_chunk = N / size_of::<T>() *)" % a["div"])
    L.append("Definition ab_plus : Z := %d.          (* num_chunks = len / num_per_chunk + K *)" % a["plus"])
    L.append("Definition ab_checked : bool := %s.  (* true: .checked_add(K).expect(..); false: plain `+ K` *)" % coq_bool(a["checked"]))
    L.append("Definition ab_expect_msg : string := %s." % coq_string(a["expect_msg"]))
    L.append("Definition ab_fill : Z := %d.          (* Default for AlignedBytes: Self([F; N]) *)" % a["fill"])
    L.append("Definition ab_derive_clone : bool := %s." % coq_bool(a["derive_clone"]))
    L.append("")
    L.append("(* threadpool.rs *)")
    L.append("Definition tp_true_values : list string := [%s]." % "; ".join(coq_string(s) for s in t["true_values"]))
    L.append("Definition tp_var_num_threads : string := %s." % coq_string(t["var_num_threads"]))
    L.append("Definition tp_var_no_pinning : string := %s." % coq_string(t["var_no_pinning"]))
    L.append("Definition tp_var_no_cache : string := %s." % coq_string(t["var_no_cache"]))
    L.append("Definition tp_compat_vars : list string := [%s]." % "; ".join(coq_string(s) for s in t["compat_vars"]))
    L.append("Definition tp_compat_default : bool := %s.   (* env-var-compat in the default feature set *)"
             % coq_bool("env-var-compat" in c["default_features"]))
    L.append("Definition tp_combine_is_min : bool := %s.   (* std::cmp::min (true) / std::cmp::max (false) *)" % coq_bool(t["combine"] == "min"))
    L.append("Definition tp_zero_is_default : bool := %s.  (* match cfg { 0 => P, n => combine(n, P) } *)" % coq_bool(t["zero_default"]))
    L.append("Definition tp_pin_when_not_flag : bool := %s. (* if !no_pinning { pin_current(..) } *)" % coq_bool(t["pin_when_not_flag"]))
    L.append("Definition tp_nocache_disables : bool := %s.  (* if no_cache { None } else { Some(create_pool()) } *)" % coq_bool(t["nocache_disables"]))
    L.append("")
    L.append("(* pinning.rs *)")
    L.append("Definition pin_oob_debug_panics : bool := %s. (* if cfg!(debug_assertions) { panic!(..) } before `return false` *)"
             % coq_bool(p["oob_debug_panics"]))
    L.append("")
    return "\n".join(L)


def write_if_changed(path, content):
    try:
        if open(path).read() == content:
            return False
    except OSError:
        pass
    os.makedirs(os.path.dirname(path), exist_ok=True)
    tmp = path + ".tmp%d" % os.getpid()
    with open(tmp, "w") as fh:
        fh.write(content)
    os.replace(tmp, path)
    return True


def main():
    f = Facts()
    aligned_buffer(f)
    threadpool(f)
    pinning(f)
    cargo(f)
    try:
        content = render(f)
    except rustlex.TranslateError as ex:
        f.err("render", str(ex))
        content = None
    if content is not None:
        write_if_changed(os.path.join(GEN, "GenConstsUtils.v"), content)
    os.makedirs(BUILD, exist_ok=True)
    out = dict(f.v)
    out["errors"] = f.errors
    with open(os.path.join(BUILD, "gen_facts_utils.json"), "w") as fh:
        json.dump(out, fh, indent=1)
    for e in f.errors:
        print("translate_utils: %s: %s" % (e["step"], e["error"]))
    return 1 if f.errors else 0


def steps(facts, _write_if_changed, _GEN, _REPO):
    """Hook for tools/translate.py (run by every check and by `run.py --setup`): step "utils" regenerates
    Gen/GenConstsUtils.v, so that a fresh checkout has every generated file the Coq project lists."""
    def run():
        if main() != 0:
            raise rustlex.TranslateError("translate_utils reported errors (see gen_facts_utils.json)")
    return [("utils", run)]


if __name__ == "__main__":
    sys.exit(main())
