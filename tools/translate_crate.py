"""translate_crate.py — generator called from translate.py (`steps(facts, write_if_changed, GEN, REPO)`).

step "crate":  /repo/cfavml (Cargo.toml, src/lib.rs and every file reachable through `mod` declarations)
               ->  coq/Gen/GenCrate.v  (`crate_graph : crate_graph`, types in Model/CrateGraph.v)   (property C14)

What is read, on every run, from the working tree:
  * Cargo.toml   [package] name/edition/build, [lib] proc-macro, every dependency table ([dependencies],
                 [dev-dependencies], [build-dependencies], [target.<cfg>.*dependencies]), [features];
  * lib.rs       the crate attributes: `#![no_std]`, `#![feature(..)]`, ... each with the condition of the
                 `cfg_attr` it sits in;
  * the module tree: `mod name;` (resolved to name.rs / name/mod.rs) and `mod name { .. }`, each with its cfg
                 condition (inner `#![cfg(..)]` included).  A module whose condition implies `test` is recorded as
                 test-only and NOT descended into;
  * every item of every other module: fn, impl (header) and each impl/trait method / associated item,
                 macro_rules! definition (the BODY is the item: the functions a macro generates are scanned
                 there), item-position macro invocation (its argument tokens), const, static, struct/enum/union,
                 type alias, trait, use, extern crate, extern block — with its cfg condition (`#[test]` counts as
                 cfg(test)); an item whose condition implies `test` is recorded as test-only without mentions;
  * per non-test item its MENTIONS, each with the line of the first occurrence, the number of occurrences and
                 the conjunction of the cfg attributes INSIDE the item that enclose it (`#[cfg(feature = "std")]
                 { f32::sqrt(a) }`, `#[cfg(feature = "std")] if std::arch::is_x86_feature_detected!(..) {..}`):
       MkPath    the first segment of every `a::b` path and of every use-tree (full path kept when the root is
                 not crate-internal), MkGlobal for `::a::b`;
       MkMacro   every macro invocation `name!(..)` / `a::b::name!(..)`;
       MkFloatFn `f32::name` / `f64::name` with a lower-case name;
       MkIdent   every identifier token of Model/CrateGraph.v's `alloc_idents`;
       MkMethod  every `.name(` / `.name::<` / `::name(` with name in `alloc_methods`, every `.name(` with name in
                 `std_float_methods` (the path form `f32::sqrt(x)` is MkFloatFn).
     The three vocabulary lists are parsed out of coq/Model/CrateGraph.v (single source) and echoed into the
     graph (`cg_scanned_*`), where `scan_complete` compares them with the Coq definitions.

Soundness direction of the approximations: the scope of an inner cfg attribute is never over-extended (an
expression statement ends at the first top-level `;` or `,`), so a mention is at worst considered active in
MORE configurations than it really is.  Anything outside the recognised item grammar raises TranslateError
(the tie is then reported broken by run.py)."""
import os
import re
import sys

sys.path.insert(0, os.path.dirname(os.path.abspath(__file__)))
from rustlex import TranslateError, tokenize, match_close  # noqa: E402

try:
    import tomllib
except ImportError:  # pragma: no cover
    tomllib = None

CRATE = "cfavml"
VERIF = os.path.dirname(os.path.dirname(os.path.abspath(__file__)))
MODEL = os.path.join(VERIF, "coq", "Model", "CrateGraph.v")

CRATE_INTERNAL = ("crate", "self", "super", "Self", "$crate")
ITEM_KW = ("fn", "struct", "enum", "union", "type", "const", "static", "trait", "impl", "mod", "use", "extern",
           "macro_rules", "unsafe", "pub", "async", "default")
HARMLESS_ATTRS = ("doc", "inline", "allow", "warn", "deny", "forbid", "derive", "target_feature", "must_use", "cold",
                  "repr", "macro_export", "rustfmt", "clippy", "deprecated", "track_caller", "non_exhaustive",
                  "automatically_derived", "no_mangle", "link_section", "used", "ignore", "should_panic", "bench",
                  "macro_use", "feature", "no_std", "no_core", "no_main", "recursion_limit", "cfg_attr", "doc_cfg",
                  "rustc_legacy_const_generics", "optimize", "export_name", "link", "link_name", "global_allocator",
                  "panic_handler", "test", "cfg")


def _helpers():
    import translate as T  # parse_cfg / cfg_coq / cfg_text / cstr / clist (the shared cfg-expression fragment)
    return T


# ------------------------------------------------------------------------------------------------------------
# vocabulary (single source: Model/CrateGraph.v)
# ------------------------------------------------------------------------------------------------------------

def coq_string_list(name):
    try:
        src = open(MODEL).read()
    except OSError as ex:
        raise TranslateError("cannot read %s: %s" % (MODEL, ex))
    m = re.search(r"Definition\s+%s\s*:\s*list string\s*:=\s*\[(.*?)\]\s*\." % re.escape(name), src, flags=re.S)
    if not m:
        raise TranslateError("vocabulary %s not found in Model/CrateGraph.v" % name)
    return re.findall(r'"([^"]*)"', m.group(1))


# ------------------------------------------------------------------------------------------------------------
# cfg helpers
# ------------------------------------------------------------------------------------------------------------

def conj(a, b):
    if a is None:
        return b
    if b is None:
        return a
    la = a[1] if a[0] == "all" else [a]
    lb = b[1] if b[0] == "all" else [b]
    return ("all", list(la) + list(lb))


def implies_test(c):
    if c is None:
        return False
    k = c[0]
    if k == "flag":
        return c[1] == "test"
    if k == "all":
        return any(implies_test(x) for x in c[1])
    if k == "any":
        return bool(c[1]) and all(implies_test(x) for x in c[1])
    return False


class Attr:
    __slots__ = ("toks", "inner", "line")

    def __init__(self, toks, inner, line):
        self.toks, self.inner, self.line = toks, inner, line

    @property
    def name(self):
        return self.toks[0].text if self.toks else ""


def read_attrs(toks, i):
    """Consecutive attributes starting at toks[i]; returns (attrs, next index)."""
    attrs = []
    while i < len(toks) and toks[i].kind == "punct" and toks[i].text == "#":
        j = i + 1
        inner = False
        if j < len(toks) and toks[j].text == "!":
            inner = True
            j += 1
        if j >= len(toks) or toks[j].text != "[":
            break
        e = match_close(toks, j)
        attrs.append(Attr(toks[j + 1:e], inner, toks[i].line))
        i = e + 1
    return attrs, i


def attrs_cfg(attrs):
    """Conjunction of the cfg conditions carried by a list of attributes (#[cfg(..)], #[test], #[bench])."""
    T = _helpers()
    c = None
    for a in attrs:
        n = a.name
        if n == "cfg":
            if len(a.toks) < 3 or a.toks[1].text != "(":
                raise TranslateError("malformed cfg attribute at line %d" % a.line)
            c = conj(c, T.parse_cfg(a.toks[2:-1]))
        elif n in ("test", "bench") and len(a.toks) == 1:
            c = conj(c, ("flag", "test"))
        elif n == "cfg_attr":
            cond, inner = split_cfg_attr(a)
            for it in inner:
                if not it or it[0].text not in HARMLESS_ATTRS or it[0].text in ("cfg", "cfg_attr", "test", "path"):
                    raise TranslateError("cfg_attr carrying %r at line %d is outside the fragment" % (
                        it[0].text if it else "", a.line))
        elif n == "path":
            raise TranslateError("#[path] attribute at line %d is outside the fragment" % a.line)
    return c


def split_cfg_attr(a):
    """#[cfg_attr(cond, attr1, attr2(..))] -> (cond tree, [attr token lists])."""
    T = _helpers()
    if len(a.toks) < 3 or a.toks[1].text != "(":
        raise TranslateError("malformed cfg_attr at line %d" % a.line)
    inside = a.toks[2:-1]
    parts, cur, depth = [], [], 0
    for t in inside:
        if t.kind == "punct" and t.text in ("(", "[", "{"):
            depth += 1
        elif t.kind == "punct" and t.text in (")", "]", "}"):
            depth -= 1
        if depth == 0 and t.kind == "punct" and t.text == ",":
            parts.append(cur)
            cur = []
        else:
            cur.append(t)
    if cur:
        parts.append(cur)
    if len(parts) < 2:
        raise TranslateError("cfg_attr without attribute at line %d" % a.line)
    return T.parse_cfg(parts[0]), parts[1:]


# ------------------------------------------------------------------------------------------------------------
# token-range helpers
# ------------------------------------------------------------------------------------------------------------

def is_p(t, x):
    return t.kind == "punct" and t.text == x


def skip_generics(toks, i):
    """toks[i] may be `<`: return the index after the matching `>` (bracket groups skipped)."""
    if i >= len(toks) or not is_p(toks[i], "<"):
        return i
    depth = 0
    j = i
    while j < len(toks):
        t = toks[j]
        if t.kind == "punct":
            if t.text == "<":
                depth += 1
            elif t.text == ">":
                depth -= 1
            elif t.text == ">>":
                depth -= 2
            elif t.text in ("(", "[", "{"):
                j = match_close(toks, j)
            elif t.text == ";":
                raise TranslateError("unbalanced generics at line %d" % toks[i].line)
        if depth <= 0:
            return j + 1
        j += 1
    raise TranslateError("unbalanced generics at line %d" % toks[i].line)


def end_semi_or_block(toks, i, lim):
    """From toks[i]: index AFTER the first top-level `;` or balanced `{..}` (paren/bracket groups skipped)."""
    j = i
    while j < lim:
        t = toks[j]
        if t.kind == "punct":
            if t.text == ";":
                return j + 1
            if t.text == "{":
                return match_close(toks, j) + 1
            if t.text in ("(", "["):
                j = match_close(toks, j) + 1
                continue
            if t.text in (")", "]", "}"):
                raise TranslateError("unexpected %r at line %d" % (t.text, t.line))
        j += 1
    raise TranslateError("item starting at line %d does not end" % toks[i].line)


def end_semi(toks, i, lim):
    """Index AFTER the first top-level `;` (all bracket groups skipped)."""
    j = i
    while j < lim:
        t = toks[j]
        if t.kind == "punct":
            if t.text == ";":
                return j + 1
            if t.text in ("(", "[", "{"):
                j = match_close(toks, j) + 1
                continue
            if t.text in (")", "]", "}"):
                raise TranslateError("unexpected %r at line %d" % (t.text, t.line))
        j += 1
    raise TranslateError("item starting at line %d does not end with `;`" % toks[i].line)


def skip_vis(toks, i):
    if i < len(toks) and toks[i].text == "pub" and toks[i].kind == "ident":
        i += 1
        if i < len(toks) and is_p(toks[i], "("):
            i = match_close(toks, i) + 1
    return i


def inner_scope_end(toks, i, lim):
    """toks[i] is the first token after one or more attributes INSIDE an item body.  Return the index after the
    thing the attributes apply to, never further than it really extends."""
    if i >= lim:
        return lim
    t = toks[i]
    x = t.text
    if is_p(t, "{"):
        return match_close(toks, i) + 1
    if t.kind == "ident" and x == "if":
        j = i
        while True:
            # condition up to the block
            k = j + 1
            while k < lim and not is_p(toks[k], "{"):
                if toks[k].kind == "punct" and toks[k].text in ("(", "["):
                    k = match_close(toks, k)
                elif toks[k].kind == "punct" and toks[k].text in (";", ")", "]", "}"):
                    raise TranslateError("cannot delimit `if` at line %d" % t.line)
                k += 1
            if k >= lim:
                raise TranslateError("cannot delimit `if` at line %d" % t.line)
            e = match_close(toks, k) + 1
            if e < lim and toks[e].kind == "ident" and toks[e].text == "else":
                if e + 1 < lim and toks[e + 1].kind == "ident" and toks[e + 1].text == "if":
                    j = e + 1
                    continue
                if e + 1 < lim and is_p(toks[e + 1], "{"):
                    return match_close(toks, e + 1) + 1
                raise TranslateError("cannot delimit `else` at line %d" % toks[e].line)
            return e
    if t.kind == "ident" and x in ("loop", "while", "for", "match"):
        k = i + 1
        while k < lim and not is_p(toks[k], "{"):
            if toks[k].kind == "punct" and toks[k].text in ("(", "["):
                k = match_close(toks, k)
            k += 1
        if k >= lim:
            raise TranslateError("cannot delimit `%s` at line %d" % (x, t.line))
        return match_close(toks, k) + 1
    if t.kind == "ident" and x == "unsafe" and i + 1 < lim and is_p(toks[i + 1], "{"):
        return match_close(toks, i + 1) + 1
    if t.kind == "ident" and x == "let":
        return end_semi(toks, i, lim)
    if t.kind == "ident" and x in ("const", "static", "type", "use"):
        return end_semi(toks, i, lim)
    if t.kind == "ident" and x in ITEM_KW:
        return end_semi_or_block(toks, i, lim)
    # expression statement / struct field / match arm / enum variant / parameter: first top-level `;` or `,`
    j = i
    while j < lim:
        u = toks[j]
        if u.kind == "punct":
            if u.text in (";", ","):
                return j + 1
            if u.text in ("(", "[", "{"):
                j = match_close(toks, j) + 1
                continue
            if u.text in (")", "]", "}"):
                return j
        j += 1
    return lim


# ------------------------------------------------------------------------------------------------------------
# mention scanner
# ------------------------------------------------------------------------------------------------------------

class Scanner:
    def __init__(self, idents, methods, dot_only_methods=()):
        self.idents = set(idents)
        self.methods = set(methods) | set(dot_only_methods)
        self.dot_only = set(dot_only_methods)      # float methods: `x.sqrt()` only (`T::sqrt(x)` is MkFloatFn / a local path)
        self.T = _helpers()

    def scan(self, toks, lo, hi, cfg, out):
        """Append mentions found in toks[lo:hi] to out: tuples (kind, root, text, path, line, cfg)."""
        i = lo
        while i < hi:
            t = toks[i]
            # attributes inside the item
            if is_p(t, "#") and i + 1 < hi and (is_p(toks[i + 1], "[") or (is_p(toks[i + 1], "!") and i + 2 < hi and is_p(toks[i + 2], "["))):
                attrs, j = read_attrs(toks, i)
                if not attrs:
                    i += 1
                    continue
                c = None
                for a in attrs:
                    n = a.name
                    if n == "cfg" or (n in ("test", "bench") and len(a.toks) == 1):
                        c = conj(c, attrs_cfg([a]))
                    elif n == "cfg_attr":
                        cond, inner = split_cfg_attr(a)
                        for it in inner:
                            if it and it[0].text in ("cfg", "cfg_attr", "path", "test"):
                                raise TranslateError("cfg_attr carrying %s at line %d is outside the fragment" % (it[0].text, a.line))
                            self.scan(it, 0, len(it), conj(cfg, cond), out)
                    elif n == "path":
                        raise TranslateError("#[path] at line %d is outside the fragment" % a.line)
                    else:
                        self.scan(a.toks, 0, len(a.toks), cfg, out)
                if c is not None:
                    if any(a.inner for a in attrs if a.name == "cfg"):
                        raise TranslateError("inner #![cfg] inside an item at line %d is outside the fragment" % attrs[0].line)
                    e = inner_scope_end(toks, j, hi)
                    self.scan(toks, j, e, conj(cfg, c), out)
                    i = e
                else:
                    i = j
                continue
            if t.kind == "ident":
                x = t.text
                prev = toks[i - 1] if i > lo else None
                nxt = toks[i + 1] if i + 1 < hi else None
                prev_colons = prev is not None and is_p(prev, "::")
                # vocabulary identifiers, wherever they occur
                if x in self.idents and not (nxt is not None and is_p(nxt, "!") and i + 2 < hi and toks[i + 2].kind == "punct" and toks[i + 2].text in ("(", "[", "{")):
                    out.append(("MkIdent", "", x, x, t.line, cfg))
                # `use` trees
                if x == "use" and not prev_colons and nxt is not None and (nxt.kind == "ident" or is_p(nxt, "{") or is_p(nxt, "::")):
                    e = end_semi(toks, i, hi)
                    self.use_tree(toks, i + 1, e - 1, cfg, out)
                    # still scan the tokens for vocabulary identifiers
                    for k in range(i + 1, e - 1):
                        if toks[k].kind == "ident" and toks[k].text in self.idents:
                            out.append(("MkIdent", "", toks[k].text, toks[k].text, toks[k].line, cfg))
                    i = e
                    continue
                # method / associated-function vocabulary
                if x in self.methods and prev is not None and nxt is not None and (is_p(nxt, "(") or is_p(nxt, "::")) \
                        and (is_p(prev, ".") or (prev_colons and x not in self.dot_only)):
                    out.append(("MkMethod", "", x, x, t.line, cfg))
                # path starting here?
                starts_path = not prev_colons
                global_path = False
                if prev_colons:
                    pp = toks[i - 2] if i - 2 >= lo else None
                    if pp is None or not (pp.kind == "ident" or (pp.kind == "punct" and pp.text in (">", ">>"))):
                        starts_path = True
                        global_path = True
                if starts_path:
                    segs, j = self.path_at(toks, i, hi)
                    is_macro = j < hi and is_p(toks[j], "!") and j + 1 < hi and toks[j + 1].kind == "punct" \
                        and toks[j + 1].text in ("(", "[", "{") and x != "macro_rules"
                    if is_macro:
                        root = segs[0] if len(segs) > 1 or global_path else ""
                        out.append(("MkMacro", root, segs[-1], "::".join(segs), t.line, cfg))
                        if global_path and root not in ("core",):
                            out.append(("MkGlobal", segs[0], segs[0], "::" + "::".join(segs), t.line, cfg))
                    elif len(segs) > 1 or global_path:
                        root = segs[0]
                        if global_path:
                            out.append(("MkGlobal", root, root, "::" + "::".join(segs), t.line, cfg))
                        elif root in ("f32", "f64") and len(segs) == 2 and segs[1][:1].islower():
                            out.append(("MkFloatFn", root, segs[1], "::".join(segs), t.line, cfg))
                        else:
                            full = "::".join(segs)
                            keep_full = root in ("std", "alloc", "test", "proc_macro") or root in self.extern_roots
                            out.append(("MkPath", root, root, full if keep_full else root, t.line, cfg))
                    # continue scanning INSIDE the path (later segments may be vocabulary identifiers / methods)
            i += 1

    extern_roots = frozenset()

    def path_at(self, toks, i, hi):
        """ident (:: ident | :: <generics>)* starting at toks[i]; returns (segments, index after the path)."""
        segs = [toks[i].text]
        j = i + 1
        while j + 1 < hi and is_p(toks[j], "::"):
            n = toks[j + 1]
            if n.kind == "ident":
                segs.append(n.text)
                j += 2
            elif is_p(n, "<"):
                j = skip_generics(toks, j + 1)
            else:
                break       # `::{` / `::*` of a use tree, handled by use_tree
        return segs, j

    def use_tree(self, toks, lo, hi, cfg, out):
        """Roots of a use declaration toks[lo:hi] (between `use` and `;`)."""
        i = lo
        if i < hi and is_p(toks[i], "::"):
            if i + 1 < hi and toks[i + 1].kind == "ident":
                segs, _ = self.path_at(toks, i + 1, hi)
                out.append(("MkGlobal", segs[0], segs[0], "::" + "::".join(segs), toks[i].line, cfg))
                return
            raise TranslateError("use tree at line %d" % toks[i].line)
        if i < hi and is_p(toks[i], "{"):
            e = match_close(toks, i)
            # top-level group: each element is its own tree
            start = i + 1
            depth = 0
            for k in range(i + 1, e + 1):
                u = toks[k]
                if u.kind == "punct" and u.text in ("{", "(", "["):
                    depth += 1
                elif u.kind == "punct" and u.text in ("}", ")", "]"):
                    if k == e:
                        if start < k:
                            self.use_tree(toks, start, k, cfg, out)
                        break
                    depth -= 1
                elif depth == 0 and is_p(u, ","):
                    if start < k:
                        self.use_tree(toks, start, k, cfg, out)
                    start = k + 1
            return
        if i < hi and toks[i].kind == "ident":
            segs, _ = self.path_at(toks, i, hi)
            root = segs[0]
            full = "::".join(segs)
            keep_full = root in ("std", "alloc", "test", "proc_macro") or root in self.extern_roots
            out.append(("MkPath", root, root, full if keep_full else root, toks[i].line, cfg))
            return
        if i < hi and is_p(toks[i], "*"):
            return
        raise TranslateError("use tree at line %d" % (toks[lo].line if lo < len(toks) else -1))


def dedupe(T, raw):
    """Collapse equal (kind, root, text, path, cfg) mentions: first line + count."""
    seen = {}
    order = []
    for kind, root, text, path, line, cfg in raw:
        key = (kind, root, text, path, T.cfg_text(cfg))
        if key in seen:
            seen[key]["count"] += 1
        else:
            seen[key] = {"kind": kind, "root": root, "text": text, "path": path, "line": line, "count": 1,
                         "cfg": cfg, "cfg_text": T.cfg_text(cfg)}
            order.append(key)
    return [seen[k] for k in order]


# ------------------------------------------------------------------------------------------------------------
# item walker
# ------------------------------------------------------------------------------------------------------------

class Walker:
    def __init__(self, repo, scanner):
        self.repo = repo
        self.scanner = scanner
        self.T = _helpers()
        self.modules = []
        self.items = []
        self.crate_attrs = []
        self.files = []

    # -- files ------------------------------------------------------------------------------------------
    def load(self, rel):
        path = os.path.join(self.repo, rel)
        try:
            with open(path) as f:
                src = f.read()
        except OSError as ex:
            raise TranslateError("cannot read %s: %s" % (rel, ex))
        self.files.append(rel)
        try:
            return tokenize(src)
        except TranslateError as ex:
            raise TranslateError("%s: %s" % (rel, ex))

    def walk_crate(self):
        rel = "%s/src/lib.rs" % CRATE
        toks = self.load(rel)
        self.modules.append({"path": "", "parent": "", "file": rel, "line": 1, "cfg": None, "test": False, "inline": False})
        self.walk_module(toks, 0, len(toks), "", rel, os.path.join(CRATE, "src"), True, None, root=True)

    # -- one module body -------------------------------------------------------------------------------
    def walk_module(self, toks, lo, hi, modpath, rel, child_dir, is_mod_rs, mod_entry, root=False):
        """Items of toks[lo:hi].  child_dir: where `mod x;` of this module looks for x.rs / x/mod.rs."""
        i = lo
        # inner attributes come first (`#![..]`)
        while i + 2 < hi and is_p(toks[i], "#") and is_p(toks[i + 1], "!") and is_p(toks[i + 2], "["):
            e = match_close(toks, i + 2)
            self.inner_attr(Attr(toks[i + 3:e], True, toks[i].line), modpath, rel, root)
            i = e + 1
        while i < hi:
            attrs, j = read_attrs(toks, i)
            if any(a.inner for a in attrs):
                raise TranslateError("%s: inner attribute after items at line %d" % (rel, attrs[0].line))
            if j >= hi:
                if attrs:
                    raise TranslateError("%s: dangling attribute at line %d" % (rel, attrs[0].line))
                break
            i = self.item(toks, j, hi, attrs, modpath, rel, child_dir, None, None)

    def inner_attr(self, a, modpath, rel, root):
        T = self.T
        n = a.name
        if n == "cfg":
            # `#![cfg(..)]`: the whole module is conditional
            c = T.parse_cfg(a.toks[2:-1])
            m = [m for m in self.modules if m["path"] == modpath][0]
            m["cfg"] = conj(m["cfg"], c)
            if implies_test(m["cfg"]):
                raise TranslateError("%s: inner #![cfg] making a module test-only is outside the fragment" % rel)
            return
        if not root:
            if n == "cfg_attr":
                cond, inner = split_cfg_attr(a)
                for it in inner:
                    if not it or it[0].text not in ("allow", "warn", "deny", "doc", "rustfmt", "clippy"):
                        raise TranslateError("%s: module-level cfg_attr carrying %r (line %d)" % (rel, it[0].text if it else "", a.line))
            elif n not in ("allow", "warn", "deny", "doc", "rustfmt", "clippy"):
                raise TranslateError("%s: module-level inner attribute %r (line %d) is outside the fragment" % (rel, n, a.line))
            return
        # crate attributes (lib.rs)
        if n == "cfg_attr":
            cond, inner = split_cfg_attr(a)
            for it in inner:
                self.crate_attr(cond, it, a.line, rel)
        else:
            self.crate_attr(None, a.toks, a.line, rel)

    def crate_attr(self, cond, toks, line, rel):
        if not toks:
            raise TranslateError("%s: empty crate attribute at line %d" % (rel, line))
        name = toks[0].text
        if name in ("cfg", "cfg_attr", "path"):
            raise TranslateError("%s: nested %s in a crate attribute (line %d) is outside the fragment" % (rel, name, line))
        args = []
        if len(toks) > 1 and is_p(toks[1], "("):
            e = match_close(toks, 1)
            cur = []
            for t in toks[2:e]:
                if is_p(t, ","):
                    if cur:
                        args.append("".join(cur))
                    cur = []
                else:
                    cur.append(t.text)
            if cur:
                args.append("".join(cur))
        elif len(toks) > 1 and is_p(toks[1], "="):
            args.append(" ".join(t.text for t in toks[2:]))
        self.crate_attrs.append({"cfg": cond, "cfg_text": self.T.cfg_text(cond), "name": name, "args": args, "line": line})
        # a crate attribute may itself mention things (#![doc = include_str!(..)])
        raw = []
        self.scanner.scan(toks, 0, len(toks), None, raw)
        if raw:
            self.add_item("IMacroCall" if any(r[0] == "MkMacro" for r in raw) else "IUse",
                          "#![%s]" % name, "", rel, line, cond, raw)

    # -- items -----------------------------------------------------------------------------------------
    def add_item(self, kind, name, modpath, rel, line, cfg, raw_mentions, test=False):
        ms = [] if test else dedupe(self.T, raw_mentions)
        self.items.append({"kind": kind, "name": name, "mod": modpath, "file": rel, "line": line, "cfg": cfg,
                           "cfg_text": self.T.cfg_text(cfg), "test": bool(test), "mentions": ms})

    def item(self, toks, i, hi, attrs, modpath, rel, child_dir, outer_cfg, owner):
        """One item starting at toks[i] (after its attributes).  Returns the index after it.
        outer_cfg / owner: set inside impl/trait bodies (cfg of the impl, its header text)."""
        own = attrs_cfg(attrs)
        cfg = conj(outer_cfg, own)
        test = implies_test(cfg)
        start_line = toks[i].line
        j = skip_vis(toks, i)
        if j >= hi:
            raise TranslateError("%s: dangling visibility at line %d" % (rel, start_line))
        t = toks[j]
        x = t.text
        qual = owner + "::" if owner else ""

        def attr_mentions(raw):
            for a in attrs:
                if a.name in ("cfg", "test", "bench"):
                    continue
                if a.name == "cfg_attr":
                    cond, inner = split_cfg_attr(a)
                    for it in inner:
                        self.scanner.scan(it, 0, len(it), cond, raw)
                else:
                    self.scanner.scan(a.toks, 0, len(a.toks), None, raw)

        def finish(kind, name, e, body_lo=None):
            raw = []
            if not test:
                attr_mentions(raw)
                self.scanner.scan(toks, i if body_lo is None else body_lo, e, None, raw)
            self.add_item(kind, qual + name, modpath, rel, start_line, cfg, raw, test)
            return e

        # macro_rules! name { .. }
        if t.kind == "ident" and x == "macro_rules" and j + 2 < hi and is_p(toks[j + 1], "!"):
            name = toks[j + 2].text
            if not (j + 3 < hi and toks[j + 3].kind == "punct" and toks[j + 3].text in ("{", "(", "[")):
                raise TranslateError("%s: macro_rules! %s: expected a delimiter (line %d)" % (rel, name, t.line))
            e = match_close(toks, j + 3) + 1
            if e < hi and is_p(toks[e], ";"):
                e += 1
            return finish("IMacroDef", name, e, body_lo=j + 3)
        # mod
        if t.kind == "ident" and x == "mod":
            name = toks[j + 1].text
            path = (modpath + "::" + name) if modpath else name
            if owner:
                raise TranslateError("%s: mod inside impl/trait at line %d" % (rel, t.line))
            if is_p(toks[j + 2], ";"):
                entry = {"path": path, "parent": modpath, "file": rel, "line": t.line, "cfg": cfg, "test": test, "inline": False}
                self.modules.append(entry)
                if not test:
                    cand = [os.path.join(child_dir, name + ".rs"), os.path.join(child_dir, name, "mod.rs")]
                    found = [c for c in cand if os.path.exists(os.path.join(self.repo, c))]
                    if len(found) != 1:
                        raise TranslateError("%s: `mod %s;` (line %d): expected exactly one of %s" % (rel, name, t.line, cand))
                    sub = found[0]
                    entry["file"] = sub
                    stoks = self.load(sub)
                    self.walk_module(stoks, 0, len(stoks), path, sub, os.path.join(child_dir, name), sub.endswith("mod.rs"), entry)
                return j + 3
            if is_p(toks[j + 2], "{"):
                e = match_close(toks, j + 2)
                entry = {"path": path, "parent": modpath, "file": rel, "line": t.line, "cfg": cfg, "test": test, "inline": True}
                self.modules.append(entry)
                if not test:
                    self.walk_module(toks, j + 3, e, path, rel, os.path.join(child_dir, name), False, entry)
                return e + 1
            raise TranslateError("%s: malformed mod at line %d" % (rel, t.line))
        # use
        if t.kind == "ident" and x == "use":
            e = end_semi(toks, j, hi)
            name = "use " + "".join(tt.text for tt in toks[j + 1:e - 1])
            return finish("IUse", name[:120], e)
        # extern crate / extern "C" fn / extern "C" { }
        if t.kind == "ident" and x == "extern":
            if toks[j + 1].kind == "ident" and toks[j + 1].text == "crate":
                name = toks[j + 2].text
                e = end_semi(toks, j, hi)
                raw = []
                self.add_item("IExternCrate", name, modpath, rel, start_line, cfg, raw, test)
                return e
            k = j + 1
            if toks[k].kind == "str":
                k += 1
            if is_p(toks[k], "{"):
                e = match_close(toks, k) + 1
                return finish("IForeign", "extern block", e)
            if toks[k].kind == "ident" and toks[k].text in ("fn", "unsafe", "const"):
                j = k
                t = toks[j]
                x = t.text
            else:
                raise TranslateError("%s: extern item at line %d" % (rel, t.line))
        # qualifiers before fn / impl / trait
        k = j
        while k < hi and toks[k].kind == "ident" and toks[k].text in ("const", "async", "unsafe", "default", "extern"):
            if toks[k].text == "const" and not (k + 1 < hi and toks[k + 1].kind == "ident" and toks[k + 1].text in ("fn", "unsafe", "async", "extern")):
                break
            k += 1
            if toks[k - 1].text == "extern" and toks[k].kind == "str":
                k += 1
        kw = toks[k]
        if kw.kind == "ident" and kw.text == "fn":
            name = toks[k + 1].text
            p = skip_generics(toks, k + 2)
            if not is_p(toks[p], "("):
                raise TranslateError("%s: fn %s: expected parameter list (line %d)" % (rel, name, kw.line))
            e = end_semi_or_block(toks, match_close(toks, p) + 1, hi)
            return finish("IMethod" if owner else "IFn", name, e)
        if kw.kind == "ident" and kw.text in ("impl", "trait"):
            if owner:
                raise TranslateError("%s: nested %s at line %d" % (rel, kw.text, kw.line))
            # header up to the body
            b = k + 1
            b = skip_generics(toks, b) if kw.text == "impl" else b
            while b < hi and not is_p(toks[b], "{"):
                if toks[b].kind == "punct" and toks[b].text in ("(", "["):
                    b = match_close(toks, b)
                elif is_p(toks[b], "<"):
                    b = skip_generics(toks, b) - 1
                elif is_p(toks[b], ";"):
                    raise TranslateError("%s: %s without body at line %d" % (rel, kw.text, kw.line))
                b += 1
            if b >= hi:
                raise TranslateError("%s: %s without body at line %d" % (rel, kw.text, kw.line))
            e = match_close(toks, b)
            header = " ".join(tt.text for tt in toks[k:b])
            header = re.sub(r"\s*::\s*", "::", header)
            header = re.sub(r"\s*<\s*", "<", header)
            header = re.sub(r"\s*>", ">", header)
            header = header[:100]
            raw = []
            if not test:
                attr_mentions(raw)
                self.scanner.scan(toks, i, b, None, raw)
            self.add_item("IImpl" if kw.text == "impl" else "ITrait", header, modpath, rel, start_line, cfg, raw, test)
            if not test:
                # members
                m = b + 1
                while m < e:
                    mattrs, m2 = read_attrs(toks, m)
                    if any(a.inner for a in mattrs):
                        raise TranslateError("%s: inner attribute in %s body (line %d)" % (rel, kw.text, mattrs[0].line))
                    if m2 >= e:
                        if mattrs:
                            raise TranslateError("%s: dangling attribute at line %d" % (rel, mattrs[0].line))
                        break
                    m = self.item(toks, m2, e, mattrs, modpath, rel, child_dir, cfg, header)
            return e + 1
        if t.kind == "ident" and x in ("struct", "enum", "union") and toks[j + 1].kind == "ident":
            e = end_semi_or_block(toks, j, hi)
            return finish("ITypeDef", toks[j + 1].text, e)
        if t.kind == "ident" and x == "type":
            e = end_semi(toks, j, hi)
            return finish("ITypeAlias", toks[j + 1].text, e)
        if t.kind == "ident" and x in ("const", "static"):
            k2 = j + 1
            if toks[k2].kind == "ident" and toks[k2].text == "mut":
                k2 += 1
            e = end_semi(toks, j, hi)
            return finish("IConst" if x == "const" else "IStatic", toks[k2].text, e)
        # item-position macro invocation: path ! ( .. ) [;]
        if t.kind == "ident" or is_p(t, "::"):
            k2 = j
            if is_p(toks[k2], "::"):
                k2 += 1
            while k2 + 1 < hi and toks[k2].kind == "ident" and is_p(toks[k2 + 1], "::"):
                k2 += 2
            if k2 + 2 < hi and toks[k2].kind == "ident" and is_p(toks[k2 + 1], "!") and toks[k2 + 2].kind == "punct" \
                    and toks[k2 + 2].text in ("(", "[", "{"):
                e = match_close(toks, k2 + 2) + 1
                if e < hi and is_p(toks[e], ";"):
                    e += 1
                return finish("IMacroCall", toks[k2].text + "!", e)
        raise TranslateError("%s: unrecognised item starting with %r at line %d" % (rel, x, t.line))


# ------------------------------------------------------------------------------------------------------------
# Cargo.toml
# ------------------------------------------------------------------------------------------------------------

def read_manifest(repo):
    rel = "%s/Cargo.toml" % CRATE
    if tomllib is None:
        raise TranslateError("python without tomllib")
    try:
        with open(os.path.join(repo, rel), "rb") as f:
            m = tomllib.load(f)
    except (OSError, tomllib.TOMLDecodeError) as ex:
        raise TranslateError("%s: %s" % (rel, ex))
    text = open(os.path.join(repo, rel)).read().splitlines()

    def line_of(name, section):
        in_sec = False
        for n, ln in enumerate(text, 1):
            s = ln.strip()
            if s.startswith("["):
                in_sec = s.strip("[]").strip() == section
            elif in_sec and re.match(r'"?%s"?\s*(=|\.)' % re.escape(name), s):
                return n
        return 0

    deps = []

    def add(section, table, dev):
        if not isinstance(table, dict):
            raise TranslateError("%s: [%s] is not a table" % (rel, section))
        for name, spec in table.items():
            ident = name
            if isinstance(spec, dict) and "package" in spec:
                ident = name      # renamed dependency: `name` is what Rust code says
            deps.append({"section": section, "name": name, "ident": ident.replace("-", "_"), "dev": dev,
                         "line": line_of(name, section)})

    for key, val in m.items():
        if key in ("dependencies", "build-dependencies"):
            add(key, val, False)
        elif key == "dev-dependencies":
            add(key, val, True)
        elif key == "target":
            for tcfg, tab in val.items():
                for k2, v2 in tab.items():
                    sec = "target.'%s'.%s" % (tcfg, k2)
                    if k2 in ("dependencies", "build-dependencies"):
                        add(sec, v2, False)
                    elif k2 == "dev-dependencies":
                        add(sec, v2, True)
                    else:
                        raise TranslateError("%s: unknown table [%s]" % (rel, sec))
        elif key in ("package", "features", "lints", "bench", "lib", "test", "example", "bin", "profile", "badges", "workspace", "patch", "replace"):
            pass
        else:
            raise TranslateError("%s: unknown top-level table [%s]" % (rel, key))
    pkg = m.get("package", {})
    feats = []
    for name, en in m.get("features", {}).items():
        if not isinstance(en, list):
            raise TranslateError("%s: feature %s is not a list" % (rel, name))
        feats.append({"name": name, "enables": [str(x) for x in en]})
    edition = pkg.get("edition", "2015")
    if not isinstance(edition, str):
        raise TranslateError("%s: edition inherited from a workspace is outside the fragment" % rel)
    build = pkg.get("build")
    has_build = (build not in (None, False)) or os.path.exists(os.path.join(repo, CRATE, "build.rs"))
    if build is False:
        has_build = False
    lib = m.get("lib", {})
    if "path" in lib and lib["path"] != "src/lib.rs":
        raise TranslateError("%s: [lib] path = %r is outside the fragment" % (rel, lib["path"]))
    return {"name": pkg.get("name", ""), "edition": edition, "build_script": bool(has_build),
            "proc_macro": bool(lib.get("proc-macro", lib.get("proc_macro", False))), "deps": deps, "features": feats}


# ------------------------------------------------------------------------------------------------------------
# rendering
# ------------------------------------------------------------------------------------------------------------

def render(T, man, w, idents, methods):
    cs, cl, cb, cc = T.cstr, T.clist, T.cbool, T.cfg_coq
    L = []
    L.append("(* GENERATED by tools/translate_crate.py from /repo/%s (Cargo.toml, src/lib.rs and the module tree) — do not edit. *)" % CRATE)
    L.append("From Coq Require Import String List Bool NArith.")
    L.append("From CF Require Import Model.Tables Model.CrateGraph.")
    L.append("Import ListNotations.")
    L.append("Open Scope string_scope.")
    L.append("Open Scope N_scope.")
    L.append("")
    L.append("Local Notation M k r t p l n c := {| mn_kind := k; mn_root := r; mn_text := t; mn_path := p; mn_line := l; mn_count := n; mn_cfg := c |} (only parsing).")
    L.append("Local Notation I k n m f l c t ms := {| it_kind := k; it_name := n; it_mod := m; it_file := f; it_line := l; it_cfg := c; it_test := t; it_mentions := ms |} (only parsing).")
    L.append("")
    files = sorted(set(w.files))
    fname = {f: "f%d" % n for n, f in enumerate(files)}
    for f in files:
        L.append("Definition %s : string := %s." % (fname[f], cs(f)))
    L.append("")
    L.append("Definition crate_attrs : list crate_attr := [")
    L.append(";\n".join("  {| ca_cfg := %s; ca_name := %s; ca_args := %s; ca_line := %d |}" % (
        cc(a["cfg"]), cs(a["name"]), cl([cs(x) for x in a["args"]]), a["line"]) for a in w.crate_attrs))
    L.append("].\n")
    L.append("Definition crate_modules : list module_ := [")
    midx = {m["path"]: n for n, m in enumerate(w.modules)}
    if len(midx) != len(w.modules):
        raise TranslateError("duplicate module path in the module tree")
    L.append(";\n".join("  (* %d *) {| md_path := %s; md_parent := %d; md_file := %s; md_line := %d; md_cfg := %s; md_test := %s; md_inline := %s |}" % (
        n, cs(m["path"]), midx[m["parent"]], fname.get(m["file"], cs(m["file"])), m["line"], cc(m["cfg"]), cb(m["test"]), cb(m["inline"]))
        for n, m in enumerate(w.modules)))
    L.append("].\n")
    # items, in chunks (keeps each definition small)
    chunk = 200
    names = []
    for n in range(0, len(w.items), chunk):
        nm = "crate_items_%d" % (n // chunk)
        names.append(nm)
        L.append("Definition %s : list item := [" % nm)
        rows = []
        for it in w.items[n:n + chunk]:
            ms = cl(["M %s %s %s %s %d %d %s" % (m["kind"], cs(m["root"]), cs(m["text"]), cs(m["path"]), m["line"], m["count"], cc(m["cfg"]))
                     for m in it["mentions"]])
            rows.append("  I %s %s %d %s %d %s %s\n    %s" % (it["kind"], cs(it["name"]), midx[it["mod"]], fname[it["file"]], it["line"],
                                                             cc(it["cfg"]), cb(it["test"]), ms))
        L.append(";\n".join(rows))
        L.append("].\n")
    L.append("Definition crate_items : list item := %s." % (" ++ ".join(names) if names else "[]"))
    L.append("")
    L.append("Definition crate_deps : list dep := [")
    L.append(";\n".join("  {| dp_section := %s; dp_name := %s; dp_ident := %s; dp_dev := %s |}" % (
        cs(d["section"]), cs(d["name"]), cs(d["ident"]), cb(d["dev"])) for d in man["deps"]))
    L.append("].\n")
    L.append("Definition crate_features : list cargo_feature := [")
    L.append(";\n".join("  {| cf_name := %s; cf_enables := %s |}" % (cs(f["name"]), cl([cs(x) for x in f["enables"]]))
                        for f in man["features"]))
    L.append("].\n")
    L.append("Definition crate_graph : cgraph := {|")
    L.append("  cg_name := %s; cg_edition := %s; cg_build_script := %s; cg_proc_macro := %s;" % (
        cs(man["name"]), cs(man["edition"]), cb(man["build_script"]), cb(man["proc_macro"])))
    L.append("  cg_attrs := crate_attrs; cg_modules := crate_modules; cg_items := crate_items; cg_deps := crate_deps;")
    L.append("  cg_features := crate_features;")
    L.append("  cg_scanned_idents := %s;" % cl([cs(x) for x in idents]))
    L.append("  cg_scanned_methods := %s" % cl([cs(x) for x in methods]))
    L.append("|}.")
    return "\n".join(L) + "\n"


# ------------------------------------------------------------------------------------------------------------

def gen_crate(facts, write_if_changed, GEN, REPO):
    T = _helpers()
    idents = coq_string_list("alloc_idents")
    alloc_methods = coq_string_list("alloc_methods")
    float_methods = coq_string_list("std_float_methods")
    methods = alloc_methods + float_methods
    man = read_manifest(REPO)
    sc = Scanner(idents, alloc_methods, float_methods)
    # identifiers that name crates other than the sysroot ones: every dependency table of Cargo.toml
    sc.extern_roots = frozenset(d["ident"] for d in man["deps"])
    w = Walker(REPO, sc)
    w.walk_crate()
    # `extern crate x;` brings x into the extern prelude: keep full paths for those roots too (second pass is not
    # needed for the classification, which is done in Coq on mn_root; this only affects how much text is kept)
    if man["name"] != CRATE:
        raise TranslateError("Cargo.toml: package name %r, expected %r" % (man["name"], CRATE))
    write_if_changed(os.path.join(GEN, "GenCrate.v"), render(T, man, w, idents, methods))

    def strip(it):
        d = {k: v for k, v in it.items() if k != "cfg"}
        d["mentions"] = [{k: v for k, v in m.items() if k != "cfg"} for m in it["mentions"]]
        return d

    facts["crate"] = {
        "manifest": man,
        "attrs": [{k: v for k, v in a.items() if k != "cfg"} for a in w.crate_attrs],
        "modules": [dict((k, v) for k, v in m.items() if k != "cfg") | {"cfg_text": T.cfg_text(m["cfg"])} for m in w.modules],
        "items": [strip(it) for it in w.items],
        "files": sorted(set(w.files)),
        "vocab": {"idents": idents, "methods": methods},
        "counts": {"modules": len(w.modules), "items": len(w.items),
                   "test_items": sum(1 for it in w.items if it["test"]),
                   "test_modules": sum(1 for m in w.modules if m["test"]),
                   "mentions": sum(len(it["mentions"]) for it in w.items)},
    }


def steps(facts, write_if_changed, GEN, REPO):
    return [("crate", lambda: gen_crate(facts, write_if_changed, GEN, REPO))]


if __name__ == "__main__":  # debugging aid: python3 tools/translate_crate.py
    import json
    f = {}
    sys.path.insert(0, os.path.dirname(os.path.abspath(__file__)))
    import translate as _T
    gen_crate(f, _T.write_if_changed, _T.GEN, _T.REPO)
    print(json.dumps(f["crate"]["counts"], indent=1))
