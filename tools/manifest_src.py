HOOKS = {
    "guard": "--cfg cfavml_verif",
    "enable": "RUSTFLAGS='--cfg cfavml_verif' when building the harness crates that path-depend on /repo/cfavml (dispatch feature-mask override); hook commit 480ee7e in /repo (cfavml/src/dispatch.rs: pub mod verif_hook + one masked() test at the head of each is_*_available)",
    "baseline_off_cmd": "cd /repo && cargo test --workspace --no-fail-fast --offline",
    "source_commits": ["480ee7e"],
    "add_only": True,
}
NOTES = ("All checks: python3 run.py <ID> --tier quick|thorough. Each re-runs tools/translate.py against /repo's working tree, "
         "rebuilds the Coq development incrementally (full .vo, no -vos), audits Print Assumptions + banned-construct grep, and runs the "
         "correspondence harnesses. Build products live in /verif/.build. See DESIGN.md.")
CHECKS = {
    "C09": {
        "text": "Coq theorems over the dispatch chain and slot tables regenerated from dispatch.rs/safe_*.rs on every run: the macro's early-return chain equals the documented-priority specification for every build configuration x predicate outcome x supplied-slot set (case analysis checked by the kernel), and every safe routine hands each slot the export of the same type/op on that slot's back end (reflection over 190x2 entries).",
        "note": "Trusted: Coq kernel + vm_compute; tools/translate.py; the specification constants priority/guard_spec/allowed_backend in Model/TableSem.v; std's CPU feature detection. Theorems are closed under the global context (no axioms).",
        "technique": "Coq proof by reflection over translator-generated tables + exhaustive case analysis",
    },
    "C11": {
        "text": "Coq theorems over the 768 export rows regenerated from danger/export_*.rs on every run: the exported identifier equals <ty>_x<form>_<arch>_<fma|nofma>_<op> recomputed from the row's element type, register and generic routine (so a name can never announce another operation/back end/fusedness than the binding), names are unique, the expanding macro arm calls exactly $op::<_, $register, AutoMath>(DIMS|a.len(), ...).",
        "note": "Trusted: Coq kernel + vm_compute; tools/translate.py; Model/Tables.v naming tables. NEON rows at source/table level only. No axioms.",
        "technique": "Coq proof by reflection over translator-generated tables",
    },
}
CHECKS["C01"] = {
    "text": "Coq theorem over the assert lists regenerated from the 8 safe macros on every run: whenever the generated assert_eq! list passes on (len a, len b, len result, DIMS), every equality the selected routine relies on holds (entailment checker proved sound for all lengths), so a mismatch always panics; composed with C07's kernel bounds theorem and C09's slot theorem. Correspondence D runs all 380 safe routines under feature masks on guard-paged slices with every kind of mismatch (stable release/debug, nightly) and applies the specification to the implementation's output.",
    "note": "Trusted: Coq kernel + vm_compute; tools/translate.py; Model/Safe.v + kernel model tied by correspondences A/C/D; harness (mmap guard pages, catch_unwind); the dispatch hook. Placement relative to unmapped memory is observed, not proved. No axioms.",
    "technique": "Coq proof (reflection + soundness lemma) over translator-generated assert lists; differential correspondence under dispatch masks",
}
CHECKS["C07"] = {
    "text": "Coq theorem kernels_in_bounds: for all 19 kernels, every element type, every register geometry with lanes >= 1 whose operations preserve the lane count, every dims and input, the kernel model terminates, never accesses outside its slices, never writes an input or reads the result (Hoare rules for the state/error monad, exact loop trip counts, partition of [0,dims)). The hand-written kernel model is tied to op_*.rs by correspondence A: a symbolic run of the REAL generic kernels (public traits, symbolic element + L-lane register) must yield identical expression trees, result cells and register event logs for L in {1,2,3,4,5,8,16(,32,64)} and every length residue.",
    "note": "Trusted: Coq kernel; hand model Model/Kernels.v, SimdApi.v, Base/Mem.v to the extent correspondence A exercises them; harness/cfh sym mode; OCaml driver; extraction with ExtrOcamlBasic only. Index arithmetic on nat (slices <= isize::MAX bytes). That compiled code touches only what the source says is observed with guard pages (C01/C02 runs), not proved. No axioms.",
    "technique": "Coq proof by loop invariants over an executable kernel model; symbolic-execution correspondence with the real generic kernels",
}
CHECKS["C03"] = {
    "text": "Coq theorems sum/dot/norm/euclid_exact: for any integer back end whose lane operations are the wrapping scalar operations lane by lane and whose horizontal sum is the lane sum modulo 2^w (record IntLanewise, established per concrete back end by Proofs/IntBackends.v from the instruction-level models of Model/Regs.v), every length and every input, the kernel returns the bit pattern congruent modulo 2^w to the exact mathematical value (sum in Z): generic reduction theorem (loop invariant: sum of all accumulator lanes = sum of the consumed prefix, modulo 2^w) + roll-up tree + scalar tail; corollary: back-end independence. Correspondences A (symbolic structure of the real kernels) and C (all executable integer reduction exports by name on guard pages, stable + nightly/AVX-512, compared with the model AND with the Coq-extracted specification).",
    "note": "Trusted: Coq kernel; hand models Model/Kernels.v, Model/Regs.v (intrinsic semantics are ours, validated bit-for-bit by correspondence C); Model/Prim.v; harness; extraction (ExtrOcamlBasic only). Theorems mention int_math whose sqrt field is defined with Flocq, so Print Assumptions lists the 4 standard-library axioms of Flocq's reals although the proofs do not use them.",
    "technique": "Coq proof by loop invariant modulo 2^w over an executable kernel model; differential correspondence + extracted-specification oracle",
}
CHECKS["C12"] = {
    "text": "Coq theorems over the regenerated tables: every export row is expanded by a macro arm whose two routines call the same generic kernel with the same arguments and differ only in DIMS vs a.len(), hence run_export Const = run_export Any whenever DIMS = len a (int/f32/f64 models); for all 190 safe entries the const and any wrappers have identical outcomes for every build configuration, dispatch outcome and input with DIMS = len a (assert lists mutually entailed, same supplied slots, same (type, back end, operation) per slot — reflection + soundness proof). Correspondence: every executable xconst::<D> against its xany on identical data for D in {0,1,3,8,17,33,65,130} (stable + nightly), and the 380 safe routines under masks incl. mismatches.",
    "note": "Trusted: Coq kernel + vm_compute; tools/translate.py; Model/Exports.v, Model/Safe.v; harness glue. Bit-equality of the two compiled forms is observed on the instantiated DIMS set, not proved. Flocq's 4 axioms appear through the float models mentioned in the statements.",
    "technique": "Coq proof by reflection over translator-generated macro tables + semantic lemma; differential const-vs-any runs",
}
CHECKS["C15"] = {
    "text": "Coq theorems about an executable model of cfavml-gemm's transpose (C15_permutation, C15_avx2_entries, C15_reg_transpose_f32/f64, C15_rejects(+_no_overflow, +_refuted), C15_involution): for every element type, width, height (product < 2^64), element kind, AVX2 flag, build profile and form of the shape check, the run returns with result[i*h+j] = data[j*w+i], every access in bounds and every cell written; every length mismatch (including overflowing products, for the checked_mul/debug forms) panics; the plain release product is refuted with a concrete witness. The model's configuration (shape-check forms, both shuffle networks line by line, strides, geometry) is read from the current source on every run, and the model is compared with the real transpose_matrix::<T> (10 types, guard pages, release+debug, 8.7k/42k cases quick/thorough).",
    "note": "Trusted: Coq kernel + vm_compute; lane semantics of 7 AVX intrinsics in Model/Transpose.v (exercised against hardware); source parser in checks/c15.py; harness/gemmh. Non-AVX2 route for f32/u32/f64/u64 not executable on this host; placement w.r.t. unmapped memory observed not proved; no axioms.",
    "technique": "Coq proof by loop invariants and symbolic lane computation over an executable model parametrised by a configuration parsed from the source; differential correspondence under guard pages",
}
NOT_APPLICABLE = {p: "check under construction in this session (see DESIGN.md §6 order of work); not yet claimed"
                  for p in ["C02", "C04", "C05", "C06", "C08", "C10", "C13", "C14", "C16", "C17", "C18"]}
