HOOKS = {
    "guard": "--cfg cfavml_verif",
    "enable": "RUSTFLAGS='--cfg cfavml_verif' when building the harness crates that path-depend on /repo/cfavml (dispatch feature-mask override); no hook commit exists yet",
    "baseline_off_cmd": "cd /repo && cargo test --workspace --no-fail-fast --offline",
    "source_commits": [],
    "add_only": True,
}
NOTES = ("All checks: python3 run.py <ID> --tier quick|thorough. Each re-runs tools/translate.py against /repo's working tree, "
         "rebuilds the Coq development incrementally (full .vo, no -vos), audits Print Assumptions + banned-construct grep, and runs the "
         "correspondence harnesses. Build products live in /verif/.build. See DESIGN.md.")
CHECKS = {
    "C09": {
        "text": "Coq theorems over the dispatch chain and slot tables regenerated from dispatch.rs/safe_*.rs on every run: the macro's early-return chain equals the documented-priority specification for every build configuration x predicate outcome x supplied-slot set (case analysis checked by the kernel), and every safe routine hands each slot the export of the same type/op on that slot's back end (reflection over 190x2 entries).",
        "note": "Trusted: Coq kernel + vm_compute; tools/translate.py; the specification constants priority/guard_spec/allowed_backend in Model/TableSem.v; std's CPU feature detection. Theorems are closed under the global context (no axioms).",
        "technique": "Coq proof by reflection over translator-generated tables + exhaustive case analysis",
    },
    "C11": {
        "text": "Coq theorems over the 768 export rows regenerated from danger/export_*.rs on every run: the exported identifier equals <ty>_x<form>_<arch>_<fma|nofma>_<op> recomputed from the row's element type, register and generic routine (so a name can never announce another operation/back end/fusedness than the binding), names are unique, the expanding macro arm calls exactly $op::<_, $register, AutoMath>(DIMS|a.len(), ...).",
        "note": "Trusted: Coq kernel + vm_compute; tools/translate.py; Model/Tables.v naming tables. NEON rows at source/table level only. No axioms.",
        "technique": "Coq proof by reflection over translator-generated tables",
    },
}
NOT_APPLICABLE = {p: "check under construction in this session (see DESIGN.md §6 order of work); not yet claimed"
                  for p in ["C01", "C02", "C03", "C04", "C05", "C06", "C07", "C08", "C10", "C12", "C13", "C14", "C15", "C16", "C17", "C18"]}
