#!/usr/bin/env python3
"""translate_feat.py — the `features` step of tools/translate.py (property C10).

Regenerates coq/Gen/GenFeatures.v on every run from /repo's working tree and from the installed stdarch
sources (rust-src of the nightly toolchain):

  impl_methods     per (register impl, element type, SimdRegister method): the function's own
                   #[target_feature] list, the core::arch intrinsics its body mentions, the other
                   (impl, type, method)s it refers to (`<Avx2 as SimdRegister<i8>>::add`, `Self::mul`,
                   `Avx2::load`, also as a bare path handed to apply_dense!), the Math methods and the
                   crate-level free functions it mentions
  trait_defaults   the same for the default method bodies of `trait SimdRegister` (core_simd_api.rs)
  free_fns         the same for every non-test free function of danger/op_*.rs, danger/mod.rs and the inherent
                   fns of DenseLane (the 19 generic_* kernels, `cosine`, `_MM_SHUFFLE`, `DenseLane::copy`)
  math_body        intrinsics / target_feature attributes anywhere in math/*.rs (expected: none)
  intrinsic_reqs   for every intrinsic mentioned anywhere above: its #[target_feature(enable = "...")]
                   requirement, mined from stdarch (x86 + x86_64 for the x86 impls, arm_shared + aarch64 for NEON)
  pred_feats       #[target_feature] lists on the four is_*_available functions (dispatch.rs)
  safe_fn_feats    #[target_feature] lists on the fns the safe macros generate (safe_*.rs)

The scan of a body is a token scan, not a type checker; its reading conventions (all over-approximations of
"may call") are listed at `scan_body`.  Anything that could hide an instruction-set requirement from that scan
(inline asm, extern blocks, an intrinsic-looking name that stdarch does not define, a `Reg::name` path that is
not a trait method, cfg-gated method variants) raises TranslateError: a failed translation is a broken tie.
"""
import glob
import os
import re
import sys

sys.path.insert(0, os.path.dirname(os.path.abspath(__file__)))
from rustlex import TranslateError, Tok, match_close, texts  # noqa: E402
from rustlex import tokenize as _tokenize  # noqa: E402


def tokenize(src):
    """rustlex tokens with `>>` split into two `>` (generic argument lists close with it; a real shift operator
    carries no information for this scan)."""
    out = []
    for t in _tokenize(src):
        if t.kind == "punct" and t.text == ">>":
            out.append(Tok("punct", ">", t.line))
            out.append(Tok("punct", ">", t.line))
        else:
            out.append(t)
    return out

TYS = {"i8": "I8", "i16": "I16", "i32": "I32", "i64": "I64", "u8": "U8", "u16": "U16", "u32": "U32",
       "u64": "U64", "f32": "F32", "f64": "F64"}
REGS = {"Fallback": "Fallback", "Avx2": "Avx2", "Avx2Fma": "Avx2Fma", "Avx512": "Avx512", "Neon": "Neon"}
PREDS = {"is_avx512_available": "PAvx512", "is_avx2_available": "PAvx2", "is_fma_available": "PFma",
         "is_neon_available": "PNeon"}
MATH_TYPES = ("M", "AutoMath", "StdMath", "FastMath")

IMPL_FILES = [("cfavml/src/danger/impl_fallback.rs", None), ("cfavml/src/danger/impl_avx2.rs", "x86"),
              ("cfavml/src/danger/impl_avx2_fma.rs", "x86"), ("cfavml/src/danger/impl_avx512.rs", "x86"),
              ("cfavml/src/danger/impl_neon.rs", "arm")]
API_FILE = "cfavml/src/danger/core_simd_api.rs"
MOD_FILE = "cfavml/src/danger/mod.rs"
MATH_GLOB = "cfavml/src/math/*.rs"
DISPATCH_FILE = "cfavml/src/dispatch.rs"
SAFE_FILES = ["cfavml/src/safe_arithmetic_ops.rs", "cfavml/src/safe_distance_ops.rs",
              "cfavml/src/safe_min_max_sum_ops.rs", "cfavml/src/safe_norm_ops.rs"]

STDARCH_REL = "lib/rustlib/src/rust/library/stdarch/crates/core_arch/src"
STDARCH_DIRS = {"x86": ["x86", "x86_64"], "arm": ["arm_shared", "aarch64"]}


# ----------------------------------------------------------------------------------------------
# stdarch: intrinsic name -> #[target_feature(enable = ...)] requirement
# ----------------------------------------------------------------------------------------------

def stdarch_root():
    env = os.environ.get("VERIF_STDARCH")
    cands = [env] if env else []
    home = os.environ.get("RUSTUP_HOME", os.path.expanduser("~/.rustup"))
    cands += sorted(glob.glob(os.path.join(home, "toolchains", "*", STDARCH_REL)), key=lambda p: ("nightly" not in p, p))
    for c in cands:
        if c and os.path.isdir(os.path.join(c, "x86")):
            return c
    raise TranslateError("stdarch sources (rust-src) not found under %s/toolchains/*/%s" % (home, STDARCH_REL))


FN_RE = re.compile(r'^pub\s+(?:const\s+)?(?:unsafe\s+)?(?:extern\s+"[^"]*"\s+)?fn\s+([A-Za-z_][A-Za-z0-9_]*)')
TF_RE = re.compile(r'^#\[target_feature\(\s*enable\s*=\s*"([^"]*)"\s*\)\]$')
CFG_RE = re.compile(r'^#\[cfg\((.*)\)\]$', re.S)
TF_CFG_RE = re.compile(r'^#\[cfg_attr\(\s*(.*?),\s*target_feature\(\s*enable\s*=\s*"([^"]*)"\s*\)\s*\)\]$', re.S)


def _cfg_eval(text, family):
    """Three-valued evaluation (True / False / None = unknown) of a cfg predicate, for the architecture family we
    translate for (x86 -> x86_64, arm -> aarch64, little-endian, 64-bit, not a test build)."""
    arch = {"x86": "x86_64", "arm": "aarch64"}[family]
    toks = re.findall(r'[A-Za-z_][A-Za-z0-9_]*|"[^"]*"|[(),=]', text)
    pos = [0]

    def expr():
        if pos[0] >= len(toks):
            return None
        name = toks[pos[0]]
        pos[0] += 1
        if name in ("all", "any", "not") and pos[0] < len(toks) and toks[pos[0]] == "(":
            pos[0] += 1
            vals = []
            while pos[0] < len(toks) and toks[pos[0]] != ")":
                vals.append(expr())
                if pos[0] < len(toks) and toks[pos[0]] == ",":
                    pos[0] += 1
            pos[0] += 1
            if name == "not":
                return None if (len(vals) != 1 or vals[0] is None) else (not vals[0])
            if name == "all":
                return False if any(v is False for v in vals) else (None if any(v is None for v in vals) else True)
            return True if any(v is True for v in vals) else (None if any(v is None for v in vals) else False)
        if pos[0] + 1 < len(toks) and toks[pos[0]] == "=":
            val = toks[pos[0] + 1].strip('"')
            pos[0] += 2
            if name == "target_arch":
                return val == arch
            if name == "target_endian":
                return val == "little"
            if name == "target_pointer_width":
                return val == "64"
            return None
        if name == "test":
            return False
        return None

    v = expr()
    return v if pos[0] == len(toks) else None


def _cfg_attr_cond(cond, family):
    return _cfg_eval(cond, family)


def mine_stdarch(root, family):
    """{intrinsic: sorted feature list | None (attribute form not understood)} for one architecture family."""
    table = {}
    nfiles = 0
    for d in STDARCH_DIRS[family]:
        for path in sorted(glob.glob(os.path.join(root, d, "**", "*.rs"), recursive=True)):
            nfiles += 1
            with open(path, errors="replace") as f:
                lines = f.read().split("\n")
            pending = []       # attribute texts directly above the next item
            acc = None         # a multi-line attribute being accumulated
            for raw in lines:
                s = raw.strip()
                if acc is not None:
                    acc += " " + s
                    if acc.count("[") <= acc.count("]"):
                        pending.append(acc)
                        acc = None
                    continue
                if raw[:1] in (" ", "\t") and not s.startswith("#["):
                    # indented line: inside a body / nested item; not an item header of an intrinsic
                    continue
                if s.startswith("//") or not s:
                    continue
                if s.startswith("#["):
                    if s.count("[") <= s.count("]"):
                        pending.append(s)
                    else:
                        acc = s
                    continue
                m = FN_RE.match(raw)
                if m:
                    feats, bad, skip = [], False, False
                    for a in pending:
                        a1 = re.sub(r"\s+", " ", a)
                        mm = CFG_RE.match(a1)
                        if mm:
                            if _cfg_eval(mm.group(1), family) is False:
                                skip = True     # item not compiled for this architecture
                            continue
                        mm = TF_RE.match(a1)
                        if mm:
                            feats += [x.strip() for x in mm.group(1).split(",") if x.strip()]
                            continue
                        mm = TF_CFG_RE.match(a1)
                        if mm:
                            v = _cfg_attr_cond(mm.group(1), family)
                            if v is None:
                                bad = True
                            elif v:
                                feats += [x.strip() for x in mm.group(2).split(",") if x.strip()]
                            continue
                        if "target_feature" in a1 and "enable" in a1:
                            bad = True
                    if skip:
                        pending = []
                        continue
                    name = m.group(1)
                    val = None if bad else sorted(set(feats))
                    if name in table and table[name] != val:
                        val = None      # defined twice with different requirements: refuse to guess
                    table[name] = val
                pending = []
    if nfiles == 0:
        raise TranslateError("no stdarch sources for %s under %s" % (family, root))
    return table


# ----------------------------------------------------------------------------------------------
# items
# ----------------------------------------------------------------------------------------------

def top_items(toks, where):
    """Split a token list (file, impl body, trait body, mod body) into items:
       {attrs: [token lists], head: tokens up to the body / `;`, body: tokens | None, line}."""
    items = []
    i, n = 0, len(toks)
    attrs = []
    while i < n:
        t = toks[i]
        if t.text == "#" and i + 1 < n and toks[i + 1].text in ("[", "!"):
            j = i + 1
            if toks[j].text == "!":
                j += 1
            e = match_close(toks, j)
            attrs.append(toks[j + 1:e])
            i = e + 1
            continue
        j = i
        body = None
        while j < n:
            x = toks[j].text
            if toks[j].kind == "punct" and x == ";":
                break
            if toks[j].kind == "punct" and x == "{":
                e = match_close(toks, j)
                body = toks[j + 1:e]
                break
            if toks[j].kind == "punct" and x in ("(", "["):
                j = match_close(toks, j) + 1
                continue
            j += 1
        if j >= n:
            raise TranslateError("%s: unterminated item at line %d" % (where, t.line))
        head = toks[i:j]
        items.append({"attrs": attrs, "head": head, "body": body, "line": t.line})
        attrs = []
        if body is not None:
            i = match_close(toks, j) + 1
            # `macro_rules! x { ... }` and items need no `;`; a struct literal never is an item here
        else:
            i = j + 1
    if attrs:
        raise TranslateError("%s: dangling attribute at end" % where)
    return items


def item_kind(head):
    """(kind, index of the keyword) with qualifiers stripped."""
    k = 0
    while k < len(head):
        x = head[k].text
        if x == "pub":
            k += 1
            if k < len(head) and head[k].text == "(":
                k = match_close(head, k) + 1
            continue
        if x in ("unsafe", "const", "default", "async") and k + 1 < len(head) and head[k + 1].text in (
                "fn", "unsafe", "const", "impl", "trait", "extern"):
            k += 1
            continue
        break
    if k >= len(head):
        return "empty", k
    x = head[k].text
    if x == "extern":
        return "extern", k
    if x == "macro_rules":
        return "macro", k
    if x in ("fn", "impl", "trait", "mod", "struct", "enum", "use", "type", "static", "const", "union"):
        return x, k
    return "other:" + x, k


def attr_features(attrs, where):
    """#[target_feature(enable = "a,b", enable = "c")] -> [a, b, c]."""
    feats = []
    for a in attrs:
        s = texts(a)
        if not s:
            continue
        if s[0] == "target_feature":
            inner = a[2:-1] if len(a) > 2 and a[1].text == "(" else []
            k = 0
            if not inner:
                raise TranslateError("%s: empty target_feature attribute" % where)
            while k < len(inner):
                if inner[k].text == ",":
                    k += 1
                    continue
                if not (inner[k].text == "enable" and k + 2 < len(inner) and inner[k + 1].text == "="
                        and inner[k + 2].kind == "str"):
                    raise TranslateError("%s: target_feature attribute not understood: %s" % (where, " ".join(s)))
                feats += [x.strip() for x in inner[k + 2].text[1:-1].split(",") if x.strip()]
                k += 3
        elif s[0] == "cfg_attr" and "target_feature" in s:
            raise TranslateError("%s: conditional target_feature attribute not supported: %s" % (where, " ".join(s)))
    return feats


def all_attr_features(toks, where):
    """Every #[target_feature(..)] attribute anywhere in a token list."""
    feats = []
    for i, t in enumerate(toks):
        if t.text == "target_feature" and i >= 2 and toks[i - 1].text == "[" and toks[i - 2].text == "#":
            e = match_close(toks, i - 1)
            feats += attr_features([toks[i:e]], where)
        elif t.text == "target_feature" and i >= 1 and toks[i - 1].text == "," and any(
                toks[q].text == "cfg_attr" for q in range(max(0, i - 40), i)):
            raise TranslateError("%s: conditional target_feature attribute (line %d) not supported" % (where, t.line))
    return feats


def is_test_cfg(attrs):
    for a in attrs:
        s = texts(a)
        if s[:2] == ["cfg", "("] and "test" in s:
            if s == ["cfg", "(", "test", ")"]:
                return True
            raise TranslateError("cfg mentioning `test` in a form not understood: %s" % " ".join(s))
    return False


def other_cfg(attrs):
    for a in attrs:
        s = texts(a)
        if s and s[0] == "cfg" and s != ["cfg", "(", "test", ")"]:
            return " ".join(s)
    return None


# ----------------------------------------------------------------------------------------------
# body scan
# ----------------------------------------------------------------------------------------------

X86_LIKE = re.compile(r"^_+mm\d*_\w+$|^_mm_\w+$")
NEON_LIKE = re.compile(r"^v[a-z0-9]+q?_[a-z0-9_]+$")


class Scan:
    def __init__(self, trait_methods, free_fn_names, tables):
        self.trait_methods = trait_methods
        self.free_fn_names = free_fn_names
        self.tables = tables          # {"x86": {...}, "arm": {...}}
        self.used = {}                # intrinsic -> family

    def body(self, toks, where, family, generics=(), reg_params=(), math_params=()):
        """Token scan of one function body.  Reading conventions:
           * `<X as SimdRegister<T>>::m`        -> method m of (X, T); X in {Self, a register type}; T an element
                                                  type, or a generic parameter of the enclosing impl (= same type)
           * `X::m` with X in {Self, a generic parameter bounded by SimdRegister, a register type} and m a
             SimdRegister method -> method m of X at the SAME
             element type as the enclosing instance (that is what type inference picks: `Register` determines it
             for every call in these files; the LLVM-IR comparison of checks/c10.py cross-checks the resulting
             edges).  With or without a following `(`: paths handed to apply_dense! count.
           * `M::m`, `AutoMath::m`, ...          -> Math method m
           * an identifier that stdarch defines as a function (for the file's architecture) -> that intrinsic
           * an identifier naming a crate-level free function / `DenseLane::f` -> that function
           everything else (core library methods, struct literals, locals) carries no instruction-set requirement
           of its own: core is compiled for the target's baseline."""
        intr, mcalls, math, fns = [], [], [], []
        n = len(toks)
        i = 0
        while i < n:
            t = toks[i]
            x = t.text
            if t.kind == "ident" and x in ("asm", "global_asm", "llvm_asm", "naked_asm") and i + 1 < n and toks[i + 1].text == "!":
                raise TranslateError("%s: inline assembly at line %d cannot be modelled" % (where, t.line))
            if t.kind == "ident" and x == "extern":
                raise TranslateError("%s: extern item/ABI at line %d cannot be modelled" % (where, t.line))
            # <X as SimdRegister<T>>::m
            if x == "<" and i + 9 < n and toks[i + 2].text == "as" and toks[i + 3].text == "SimdRegister":
                s = texts(toks[i:i + 10])
                if not (s[4] == "<" and s[6] == ">" and s[7] == ">" and s[8] == "::"):
                    raise TranslateError("%s: qualified path not understood at line %d: %s" % (where, t.line, " ".join(s)))
                X, T, m = s[1], s[5], s[9]
                if X != "Self" and X not in REGS:
                    raise TranslateError("%s: `<%s as SimdRegister<..>>` names an unknown implementor (line %d)" % (where, X, t.line))
                if T in TYS:
                    ty = T
                elif T in generics:
                    ty = None
                else:
                    raise TranslateError("%s: element type %s not understood (line %d)" % (where, T, t.line))
                if m not in self.trait_methods:
                    raise TranslateError("%s: %s is not a SimdRegister method (line %d)" % (where, m, t.line))
                mcalls.append((None if X == "Self" else X, ty, m))
                i += 10
                continue
            if x == "<" and i + 3 < n and toks[i + 2].text == "as" and (toks[i + 1].text == "Self" or toks[i + 1].text in REGS):
                raise TranslateError("%s: qualified path `<%s as %s..>` not understood (line %d)" % (
                    where, toks[i + 1].text, toks[i + 3].text, t.line))
            if t.kind == "ident" and i + 2 < n and toks[i + 1].text == "::" and toks[i + 2].kind == "ident":
                m = toks[i + 2].text
                if x == "Self" or x in REGS or x in reg_params:
                    if m in self.trait_methods:
                        mcalls.append((x if x in REGS else None, None, m))
                        i += 3
                        continue
                    if m == "Register":
                        i += 3
                        continue
                    raise TranslateError("%s: `%s::%s` is not a SimdRegister method (line %d)" % (where, x, m, t.line))
                if x in MATH_TYPES or x in math_params:
                    math.append(m)
                    i += 3
                    continue
                if x == "DenseLane" and m[:1].islower():
                    name = "DenseLane::" + m
                    if name not in self.free_fn_names:
                        raise TranslateError("%s: unknown function %s (line %d)" % (where, name, t.line))
                    fns.append((name, None))
                    i += 3
                    continue
                if x == "arch" and m not in ("x86", "x86_64", "aarch64", "is_x86_feature_detected",
                                             "is_aarch64_feature_detected"):
                    raise TranslateError("%s: path through `arch::%s` not understood (line %d)" % (where, m, t.line))
            if t.kind == "ident":
                nxt = toks[i + 1].text if i + 1 < n else ""
                prev = toks[i - 1].text if i > 0 else ""
                callpos = prev not in (".", "fn", "let", "mut") and (nxt in ("(", "::") or (nxt in (",", ")") and prev in ("(", ",")))
                if x in self.free_fn_names and prev not in (".", "fn"):
                    # crate-level function (shadows a glob-imported intrinsic of the same name); turbofish recorded
                    targs = None
                    if nxt == "::" and i + 2 < n and toks[i + 2].text == "<":
                        depth, j, cur, targs = 0, i + 2, [], []
                        while j < n:
                            y = toks[j].text
                            if y == "<":
                                depth += 1
                                if depth > 1:
                                    cur.append(y)
                            elif y == ">":
                                depth -= 1
                                if depth == 0:
                                    if cur:
                                        targs.append(" ".join(cur))
                                    break
                                cur.append(y)
                            elif y == "," and depth == 1:
                                targs.append(" ".join(cur))
                                cur = []
                            else:
                                cur.append(y)
                            j += 1
                    fns.append((x, tuple(targs) if targs is not None else None))
                    i += 1
                    continue
                fam_hit = None
                for fam in ([family] if family else sorted(self.tables)):
                    if x in self.tables[fam] and (x.startswith("_") or callpos):
                        fam_hit = fam
                        break
                if fam_hit:
                    if self.tables[fam_hit][x] is None:
                        raise TranslateError("%s: intrinsic %s: stdarch target_feature attribute not understood" % (where, x))
                    intr.append(x)
                    self.used[x] = fam_hit
                else:
                    looks = X86_LIKE.match(x) or (family == "arm" and NEON_LIKE.match(x))
                    if looks and callpos:
                        raise TranslateError("%s: `%s` (line %d) looks like a core::arch intrinsic but stdarch (%s) does not define it"
                                             % (where, x, t.line, family or "any"))
            i += 1
        return {"intr": _uniq(intr), "mcalls": _uniq(mcalls), "math": _uniq(math), "fns": _uniq(fns)}


def _uniq(xs):
    out, seen = [], set()
    for x in xs:
        if x not in seen:
            seen.add(x)
            out.append(x)
    return out


# ----------------------------------------------------------------------------------------------
# the files
# ----------------------------------------------------------------------------------------------

def read(REPO, rel):
    with open(os.path.join(REPO, rel)) as f:
        return f.read()


def fn_name(head, k):
    if k + 1 >= len(head) or head[k + 1].kind != "ident":
        raise TranslateError("fn without a name at line %d" % head[0].line)
    return head[k + 1].text


def strip_generics(head, k):
    """head[k] == '<' -> (list of generic parameter names, index after the closing '>')."""
    depth, j, names, expect = 0, k, [], True
    while j < len(head):
        x = head[j].text
        if x == "<":
            depth += 1
        elif x == ">":
            depth -= 1
            if depth == 0:
                return names, j + 1
        elif depth == 1:
            if expect and head[j].kind == "ident" and x != "const":
                names.append(x)
                expect = False
            elif x == ",":
                expect = True
        j += 1
    raise TranslateError("unbalanced generics at line %d" % head[k].line)


def parse_trait(REPO, scan_factory):
    rel = API_FILE
    toks = tokenize(read(REPO, rel))
    trait = None
    dense_fns = []
    for it in top_items(toks, rel):
        kind, k = item_kind(it["head"])
        if kind == "trait" and it["head"][k + 1].text == "SimdRegister":
            if trait is not None:
                raise TranslateError("%s: trait SimdRegister defined twice" % rel)
            trait = it
        elif kind == "impl":
            h = texts(it["head"][k + 1:])
            if "for" in h:
                raise TranslateError("%s: unexpected trait impl in the API file (line %d)" % (rel, it["line"]))
            if "DenseLane" in h:
                dense_fns.append(it)
            else:
                raise TranslateError("%s: inherent impl of an unknown type (line %d)" % (rel, it["line"]))
        elif kind in ("fn", "extern") and not is_test_cfg(it["attrs"]):
            raise TranslateError("%s: unexpected free item `%s` (line %d)" % (rel, kind, it["line"]))
    if trait is None:
        raise TranslateError("%s: trait SimdRegister not found" % rel)
    methods, defaults = [], []
    for it in top_items(trait["body"], rel + ":trait"):
        kind, k = item_kind(it["head"])
        if kind == "type":
            continue
        if kind != "fn":
            raise TranslateError("%s: trait item `%s` not understood (line %d)" % (rel, kind, it["line"]))
        if other_cfg(it["attrs"]):
            raise TranslateError("%s: cfg-gated trait method (line %d)" % (rel, it["line"]))
        name = fn_name(it["head"], k)
        methods.append(name)
        if it["body"] is not None:
            defaults.append((name, it))
    return methods, defaults, dense_fns


def parse_impls(REPO, rel, methods):
    """[(reg, ty|None, generics, [(method, item)])] for every `impl SimdRegister<..> for Reg` of a file."""
    src = read(REPO, rel)
    toks = tokenize(src)
    out = []
    for it in top_items(toks, rel):
        kind, k = item_kind(it["head"])
        if is_test_cfg(it["attrs"]):
            continue
        if kind in ("fn", "extern", "macro", "mod", "trait"):
            raise TranslateError("%s: unexpected `%s` item (line %d): helper items in impl files are not modelled" % (rel, kind, it["line"]))
        if kind != "impl":
            continue
        if other_cfg(it["attrs"]):
            raise TranslateError("%s: cfg-gated impl (line %d)" % (rel, it["line"]))
        h = it["head"]
        j = k + 1
        generics = []
        if h[j].text == "<":
            generics, j = strip_generics(h, j)
        s = texts(h[j:])
        if len(s) < 6 or s[0] != "SimdRegister" or s[1] != "<" or s[3] != ">" or s[4] != "for":
            raise TranslateError("%s: impl header not understood (line %d): %s" % (rel, it["line"], " ".join(s[:8])))
        T, regn = s[2], s[5]
        if regn not in REGS:
            raise TranslateError("%s: impl for unknown register type %s (line %d)" % (rel, regn, it["line"]))
        if len(s) > 6 and s[6] != "where":
            raise TranslateError("%s: impl header not understood (line %d)" % (rel, it["line"]))
        if T in TYS:
            ty = T
        elif T in generics:
            ty = None
        else:
            raise TranslateError("%s: impl for unknown element type %s (line %d)" % (rel, T, it["line"]))
        fns = []
        for m in top_items(it["body"], rel):
            mk, mi = item_kind(m["head"])
            if mk == "type":
                continue
            if mk != "fn":
                raise TranslateError("%s: impl item `%s` not understood (line %d)" % (rel, mk, m["line"]))
            if other_cfg(m["attrs"]) or is_test_cfg(m["attrs"]):
                raise TranslateError("%s: cfg-gated method (line %d)" % (rel, m["line"]))
            name = fn_name(m["head"], mi)
            if name not in methods:
                raise TranslateError("%s: %s is not a SimdRegister method (line %d)" % (rel, name, m["line"]))
            if m["body"] is None:
                raise TranslateError("%s: method %s without body (line %d)" % (rel, name, m["line"]))
            fns.append((name, m))
        out.append((regn, ty, generics, fns, it["line"]))
    return out


def parse_free_fns(REPO, rel):
    """Non-test free functions of a file: [(name, item)].  Recurses into nothing: nested mods are refused
    unless they are cfg(test)."""
    toks = tokenize(read(REPO, rel))
    out = []
    for it in top_items(toks, rel):
        kind, k = item_kind(it["head"])
        if is_test_cfg(it["attrs"]):
            continue
        if kind == "fn":
            if other_cfg(it["attrs"]):
                raise TranslateError("%s: cfg-gated function (line %d)" % (rel, it["line"]))
            if it["body"] is None:
                raise TranslateError("%s: function without body (line %d)" % (rel, it["line"]))
            out.append((fn_name(it["head"], k), it))
        elif kind == "extern":
            raise TranslateError("%s: extern item (line %d) cannot be modelled" % (rel, it["line"]))
        elif kind == "impl":
            raise TranslateError("%s: unexpected impl (line %d)" % (rel, it["line"]))
        elif kind == "mod" and it["body"] is not None:
            raise TranslateError("%s: inline module (line %d) not supported" % (rel, it["line"]))
    return out


def gen_features(facts, write_if_changed, GEN, REPO):
    root = stdarch_root()
    tables = {fam: mine_stdarch(root, fam) for fam in STDARCH_DIRS}
    n_resolved = {fam: sum(1 for v in tables[fam].values() if v is not None) for fam in tables}

    methods, defaults, dense_items = parse_trait(REPO, None)

    # crate-level free functions: names first (bodies refer to each other)
    op_files = sorted(glob.glob(os.path.join(REPO, "cfavml/src/danger/op_*.rs")))
    if not op_files:
        raise TranslateError("no danger/op_*.rs files found")
    free_items = []
    for p in op_files + [os.path.join(REPO, MOD_FILE)]:
        rel = os.path.relpath(p, REPO)
        for name, it in parse_free_fns(REPO, rel):
            free_items.append((name, it, rel))
    for d in dense_items:
        for m in top_items(d["body"], API_FILE):
            mk, mi = item_kind(m["head"])
            if mk == "fn":
                free_items.append(("DenseLane::" + fn_name(m["head"], mi), m, API_FILE))
            elif mk != "const":
                raise TranslateError("%s: DenseLane item `%s` not understood" % (API_FILE, mk))
    names = [n for n, _, _ in free_items]
    if len(set(names)) != len(names):
        dup = sorted({n for n in names if names.count(n) > 1})
        raise TranslateError("free functions defined twice: %s" % ", ".join(dup))
    scan = Scan(set(methods), set(names), tables)

    def body_of(it, where, family, generics=(), reg_params=(), math_params=()):
        b = scan.body(it["body"], where, family, generics, reg_params, math_params)
        b["feats"] = attr_features(it["attrs"], where)
        b["line"] = it["line"]
        return b

    F = {"stdarch_root": root, "stdarch_resolved": n_resolved, "trait_methods": methods}
    F["trait_defaults"] = [{"name": n, **body_of(it, "%s:%s" % (API_FILE, n), None)} for n, it in defaults]
    for d in F["trait_defaults"]:
        d["fns"] = [f for f, _ in d["fns"]]
    sigs = {}
    for n, it, rel in free_items:
        kind, k = item_kind(it["head"])
        h = it["head"]
        generics = []
        if k + 2 < len(h) and h[k + 2].text == "<":
            generics, _ = strip_generics(h, k + 2)
        ht = texts(h)
        regp = [g for g in generics if any(ht[q] == g and ht[q + 1] == ":" and ht[q + 2] == "SimdRegister"
                                           for q in range(len(ht) - 2))]
        mathp = [g for g in generics if any(ht[q] == g and ht[q + 1] == ":" and ht[q + 2] == "Math"
                                            for q in range(len(ht) - 2))]
        if "SimdRegister" in ht and not regp:
            raise TranslateError("%s:%s: SimdRegister bound on something that is not a generic parameter" % (rel, n))
        sigs[n] = {"generics": generics, "reg_params": regp, "math_params": mathp}
        if n.startswith("generic_") and (generics != ["T", "R", "M"] or regp != ["R"] or mathp != ["M"]):
            # the export macros instantiate `$op::<_, $im, AutoMath>`: element type, register, math — in this order
            raise TranslateError("%s:%s: kernel generics are %s with register parameters %s / math parameters %s; "
                                 "expected <T, R: SimdRegister<T>, M: Math<T>>" % (rel, n, generics, regp, mathp))
    F["free_fns"] = []
    for n, it, rel in free_items:
        sg = sigs[n]
        b = body_of(it, "%s:%s" % (rel, n), None, sg["generics"], sg["reg_params"], sg["math_params"])
        # a callee that is generic in a register must be instantiated, explicitly, with the caller's own register
        outf = []
        for callee, targs in b["fns"]:
            cs = sigs[callee]
            if cs["reg_params"]:
                if targs is None or len(targs) != len(cs["generics"]):
                    raise TranslateError("%s:%s: call of %s without an explicit instantiation" % (rel, n, callee))
                for g, a in zip(cs["generics"], targs):
                    if g in cs["reg_params"] and a not in sg["reg_params"]:
                        raise TranslateError("%s:%s: %s instantiated with register `%s`, which is not the caller's own "
                                             "register parameter" % (rel, n, callee, a))
            if callee not in outf:
                outf.append(callee)
        b["fns"] = outf
        F["free_fns"].append({"name": n, "file": rel, **sg, **b})

    impls = []
    for rel, family in IMPL_FILES:
        if not os.path.exists(os.path.join(REPO, rel)):
            raise TranslateError("%s: missing" % rel)
        for regn, ty, generics, fns, line in parse_impls(REPO, rel, methods):
            for name, m in fns:
                where = "%s:<%s as SimdRegister<%s>>::%s" % (rel, regn, ty or "T", name)
                b = body_of(m, where, family, generics)
                for callee, _ in b["fns"]:
                    if sigs[callee]["reg_params"]:
                        raise TranslateError("%s: a register method calls the register-generic function %s" % (where, callee))
                b["fns"] = _uniq([f for f, _ in b["fns"]])
                impls.append({"reg": regn, "ty": ty, "name": name, "file": rel, **b})
    keys = [(r["reg"], r["ty"], r["name"]) for r in impls]
    if len(set(keys)) != len(keys):
        raise TranslateError("a SimdRegister method is implemented twice for the same (register, type)")
    # required (body-less) trait methods must be implemented by every impl: rustc checks that; we record which
    # (register, type) pairs exist so that the Coq side can tell "inherited default" from "no such impl".
    F["impl_methods"] = impls
    F["impl_pairs"] = _uniq([(r["reg"], r["ty"]) for r in impls])

    # math layer: whole files, every cfg variant together
    mintr, mfeats = [], []
    for p in sorted(glob.glob(os.path.join(REPO, MATH_GLOB))):
        rel = os.path.relpath(p, REPO)
        toks = tokenize(read(REPO, rel))
        b = Scan(set(), set(), tables).body(toks, rel, None)
        mintr += b["intr"]
        mfeats += all_attr_features(toks, rel)
    F["math"] = {"intr": _uniq(mintr), "feats": _uniq(mfeats)}

    # dispatch.rs: attributes on the predicates; safe_*.rs: attributes on the generated fns
    dtoks = tokenize(read(REPO, DISPATCH_FILE))
    pfeats = {}
    for it in top_items(dtoks, DISPATCH_FILE):
        kind, k = item_kind(it["head"])
        if kind == "fn":
            name = fn_name(it["head"], k)
            if name in PREDS:
                pfeats[name] = attr_features(it["attrs"], DISPATCH_FILE + ":" + name)
                b = Scan(set(), set(), tables).body(it["body"], DISPATCH_FILE + ":" + name, None)
                if b["intr"]:
                    raise TranslateError("%s: %s mentions intrinsics %s" % (DISPATCH_FILE, name, b["intr"]))
    if sorted(pfeats) != sorted(PREDS):
        raise TranslateError("%s: expected the four is_*_available functions, found %s" % (DISPATCH_FILE, sorted(pfeats)))
    F["pred_feats"] = pfeats
    sfeats = []
    for rel in SAFE_FILES:
        toks = tokenize(read(REPO, rel))
        for it in top_items(toks, rel):
            kind, k = item_kind(it["head"])
            if kind == "macro" and not is_test_cfg(it["attrs"]):
                mname = it["head"][k + 2].text
                # arms: ( pattern ) => { body } ;
                b = it["body"]
                j = 0
                while j < len(b):
                    if b[j].text != "(":
                        raise TranslateError("%s: macro %s arm not understood" % (rel, mname))
                    pe = match_close(b, j)
                    if b[pe + 1].text != "=>" or b[pe + 2].text != "{":
                        raise TranslateError("%s: macro %s arm not understood" % (rel, mname))
                    be = match_close(b, pe + 2)
                    arm = b[pe + 3:be]
                    for f in top_items(arm, rel + ":" + mname):
                        fk, fi = item_kind(f["head"])
                        if fk != "fn":
                            raise TranslateError("%s: macro %s generates a non-fn item" % (rel, mname))
                        sfeats.append({"macro": mname, "namevar": fn_name(f["head"], fi).lstrip("$"),
                                       "feats": attr_features(f["attrs"], rel + ":" + mname)})
                        sb = Scan(set(), set(), tables).body(f["body"], rel + ":" + mname, None)
                        if sb["intr"]:
                            raise TranslateError("%s: safe macro %s mentions intrinsics %s" % (rel, mname, sb["intr"]))
                    j = be + 1
                    if j < len(b) and b[j].text == ";":
                        j += 1
    F["safe_fn_feats"] = sfeats

    used = dict(scan.used)
    for x in F["math"]["intr"]:
        used.setdefault(x, "x86" if x in tables["x86"] else "arm")
    reqs = []
    for name in sorted(used):
        v = tables[used[name]].get(name)
        if v is None:
            raise TranslateError("intrinsic %s does not resolve in stdarch" % name)
        reqs.append({"name": name, "family": used[name], "feats": v})
    F["intrinsic_reqs"] = reqs
    facts["features"] = F
    write_if_changed(os.path.join(GEN, "GenFeatures.v"), render(F))


# ----------------------------------------------------------------------------------------------
# Coq output
# ----------------------------------------------------------------------------------------------

def cstr(s):
    return '"' + s.replace('"', '""') + '"'


def clist(items):
    return "[" + "; ".join(items) + "]"


def cstrs(xs):
    return clist([cstr(x) for x in xs])


def copt(x, f):
    return "None" if x is None else "(Some %s)" % f(x)


def cbody(b):
    mc = clist(["{| mc_reg := %s; mc_ty := %s; mc_name := %s |}" % (
        copt(r, lambda v: REGS[v]), copt(t, lambda v: TYS[v]), cstr(m)) for r, t, m in b["mcalls"]])
    return "{| fb_feats := %s; fb_intr := %s; fb_mcalls := %s; fb_math := %s; fb_fns := %s |}" % (
        cstrs(b["feats"]), cstrs(b["intr"]), mc, cstrs(b["math"]), cstrs(b["fns"]))


def render(F):
    L = ["(* GENERATED by tools/translate_feat.py from danger/impl_*.rs, core_simd_api.rs, op_*.rs, math/*.rs,",
         "   dispatch.rs, safe_*.rs and the installed stdarch sources — do not edit. *)",
         "From Coq Require Import String List.", "From CF Require Import Model.Tables Model.Features.",
         "Import ListNotations.", "Open Scope string_scope.", "",
         "Definition intrinsic_reqs : list (string * list string) := ["]
    L.append(";\n".join("  (%s, %s)" % (cstr(r["name"]), cstrs(r["feats"])) for r in F["intrinsic_reqs"]))
    L.append("].\n")
    L.append("Definition trait_methods : list string := %s.\n" % cstrs(F["trait_methods"]))
    L.append("Definition trait_defaults : list (string * fbody) := [")
    L.append(";\n".join("  (%s, %s)" % (cstr(d["name"]), cbody(d)) for d in F["trait_defaults"]))
    L.append("].\n")
    L.append("Definition impl_methods : list impl_method := [")
    L.append(";\n".join("  {| im_reg := %s; im_ty := %s; im_name := %s; im_body := %s |}" % (
        REGS[r["reg"]], copt(r["ty"], lambda v: TYS[v]), cstr(r["name"]), cbody(r)) for r in F["impl_methods"]))
    L.append("].\n")
    L.append("Definition free_fns : list (string * fbody) := [")
    L.append(";\n".join("  (%s, %s)" % (cstr(d["name"]), cbody(d)) for d in F["free_fns"]))
    L.append("].\n")
    L.append("Definition math_body : fbody := %s.\n" % cbody(
        {"feats": F["math"]["feats"], "intr": F["math"]["intr"], "mcalls": [], "math": [], "fns": []}))
    L.append("Definition pred_feats : list (pred * list string) := %s.\n" % clist(
        ["(%s, %s)" % (PREDS[k], cstrs(v)) for k, v in sorted(F["pred_feats"].items(), key=lambda kv: list(PREDS).index(kv[0]))]))
    L.append("Definition safe_fn_feats : list (string * string * list string) := %s." % clist(
        ["(%s, %s, %s)" % (cstr(s["macro"]), cstr(s["namevar"]), cstrs(s["feats"])) for s in F["safe_fn_feats"]]))
    L.append("")
    L.append("Definition feature_graph : graph :=")
    L.append("  {| g_intr := intrinsic_reqs; g_trait_methods := trait_methods; g_defaults := trait_defaults;")
    L.append("     g_impls := impl_methods; g_fns := free_fns; g_math := math_body;")
    L.append("     g_pred_feats := pred_feats; g_safe_feats := safe_fn_feats |}.")
    return "\n".join(L) + "\n"


def steps(facts, write_if_changed, GEN, REPO):
    return [("features", lambda: gen_features(facts, write_if_changed, GEN, REPO))]


if __name__ == "__main__":
    import json
    facts = {}
    out = {}

    def w(path, content):
        out[path] = content
    gen_features(facts, w, "/tmp", os.environ.get("VERIF_REPO", "/repo"))
    print(json.dumps({k: (v if not isinstance(v, list) else len(v)) for k, v in facts["features"].items()}, indent=1, default=str)[:3000])
